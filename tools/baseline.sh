#!/bin/bash
# Runs the repository's own test suite (guard off) on a scratch copy of /repo's working tree
# (running go inside /repo would rewrite go.work.sum). Prints a summary; exit 0 iff all pass.
set -u
SRC=${1:-/repo}
D=$(mktemp -d /dev/shm/baseline-XXXX)
trap 'rm -rf "$D"' EXIT
rsync -a --exclude .git "$SRC/" "$D/src/"
cd "$D/src"
export PATH=/opt/veriftools/go1.26.8/bin:$PATH GOROOT=/opt/veriftools/go1.26.8 GOTOOLCHAIN=local GOPROXY=off GOSUMDB=off GOFLAGS= ; unset GOWORK
go test -vet=off -count=1 -timeout 25m ./... 2>&1 | tail -${TAIL:-15}
exit ${PIPESTATUS[0]}
