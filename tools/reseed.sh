#!/bin/bash
# Usage: tools/reseed.sh [name-glob]   Re-runs every kept seeded change against the CURRENT /repo
# and the current checks: applies seeded/<name>/patch.diff to a scratch worktree and runs the quick
# tier of the checks that caught it when it was kept (meta.json). Prints one line per seed.
# A patch that no longer applies (the code it touches was repaired since) is reported as such.
cd /verif
for d in seeded/${1:-*}/; do
  n=$(basename "$d")
  checks=$(python3 -c "
import json
m=json.load(open('$d/meta.json'))
c=[x['check'] for x in m['checks'] if x['exit']==1]
print(' '.join(c[:1]))")
  [ -z "$checks" ] && { echo "$n: (not caught when kept, skipped)"; continue; }
  WT=$(mktemp -d /dev/shm/seedwt-XXXX); rmdir "$WT"
  git -C /repo worktree add -q --detach "$WT" HEAD || { echo "$n: worktree error"; continue; }
  if ! git -C "$WT" apply "/verif/$d/patch.diff" 2>/dev/null; then
    if ! git -C "$WT" apply -3 "/verif/$d/patch.diff" >/dev/null 2>&1; then echo "$n: PATCH NO LONGER APPLIES"; git -C /repo worktree remove --force "$WT" >/dev/null 2>&1; continue; fi
  fi
  if ! (cd "$WT" && PATH=/opt/veriftools/go1.26.8/bin:$PATH GOROOT=/opt/veriftools/go1.26.8 GOTOOLCHAIN=local GOPROXY=off GOFLAGS= GOWORK=off go build ./... >/dev/null 2>&1); then echo "$n: patched tree does not build"; git -C /repo worktree remove --force "$WT" >/dev/null 2>&1; continue; fi
  for c in $checks; do
    out=$(VERIF_REPO="$WT" ./check "$c" quick 2>&1); rc=$?
    echo "$n: $c exit=$rc violations=$(echo "$out" | grep -c '^VIOLATION')"
  done
  git -C /repo worktree remove --force "$WT" >/dev/null 2>&1; rm -rf "$WT"
done
