#!/bin/bash
# Usage: tools/keepseed.sh <name> <Cxx> <patch.diff> <demo-dir> "<needs>" [check-props...]
# Confirms a seeded change (suite passes, demo passes unpatched / fails patched), runs the
# given checks against it, and stores it under /verif/seeded/<name>/.
set -u
NAME=$1; PROP=$2; PATCH=$(readlink -f "$3"); DEMO=$(readlink -f "$4"); NEEDS=$5; shift 5
CHECKS=${*:-$PROP}
export PATH=/opt/veriftools/go1.26.8/bin:$PATH GOROOT=/opt/veriftools/go1.26.8 GOTOOLCHAIN=local GOPROXY=off GOSUMDB=off
WT=$(mktemp -d /dev/shm/seedwt-XXXX); rmdir "$WT"
git -C /repo worktree add -q --detach "$WT" HEAD || exit 3
trap 'git -C /repo worktree remove --force "$WT" >/dev/null 2>&1; rm -rf "$WT" /dev/shm/keepseed-demo-$$' EXIT
cp -r "$DEMO" /dev/shm/keepseed-demo-$$
run_demo() { (cd /dev/shm/keepseed-demo-$$ && GOFLAGS= timeout 600 bash ./run.sh "$WT" >/dev/shm/keepseed-demo-$$.log 2>&1); echo $?; }
U=$(run_demo)
git -C "$WT" apply "$PATCH" || { echo "patch does not apply"; exit 3; }
P=$(run_demo)
if /verif/tools/baseline.sh "$WT" >/tmp/keepseed-suite.log 2>&1; then S=pass; else S=FAIL; fi
echo "demo unpatched exit=$U patched exit=$P suite=$S"
RES=""
cd /verif
for c in $CHECKS; do
  out=$(VERIF_REPO="$WT" ./check "$c" quick 2>&1); rc=$?
  nv=$(echo "$out" | grep -c "^VIOLATION")
  kind=$(echo "$out" | grep -A1 "^VIOLATION" | sed -n 2p | cut -c1-160)
  echo "check $c: exit=$rc violations=$nv $kind"
  RES="$RES{\"check\":\"$c\",\"exit\":$rc,\"violation_lines\":$nv},"
done
D=/verif/seeded/$NAME; rm -rf "$D"; mkdir -p "$D"
cp "$PATCH" "$D/patch.diff"; cp -r "$DEMO" "$D/demo"; rm -rf "$D/demo/"*.test 2>/dev/null
find "$D/demo" -size +200k -delete 2>/dev/null
python3 - "$D" "$NAME" "$PROP" "$NEEDS" "$U" "$P" "$S" "[${RES%,}]" <<'PY'
import json,sys
d,name,prop,needs,u,p,s,res=sys.argv[1:9]
json.dump({"name":name,"breaks_property":prop,"needs_to_manifest":needs,
 "confirmed":{"demo_exit_unpatched":int(u),"demo_exit_patched":int(p),"repository_suite_with_patch":s},
 "ran":["tools/keepseed.sh (scratch worktree of /repo HEAD, demo run.sh both ways, tools/baseline.sh, ./check <id> quick with VERIF_REPO=<worktree>)"],
 "checks":json.loads(res)},open(d+"/meta.json","w"),indent=1)
PY
rm -f /dev/shm/keepseed-demo-$$.log
