#!/bin/bash
# Usage: tools/seedtest.sh <patch.diff> <Cxx> [tier] [extra env...]
# Applies the patch to a scratch worktree of /repo HEAD, optionally runs the repository's
# suite (SUITE=1), runs ./check <Cxx> against that tree (VERIF_REPO), removes the worktree.
set -u
PATCH=$(readlink -f "$1"); PROP=$2; TIER=${3:-quick}
WT=$(mktemp -d /dev/shm/seedwt-XXXX)
rmdir "$WT"
git -C /repo worktree add -q --detach "$WT" HEAD || exit 3
trap 'git -C /repo worktree remove --force "$WT" >/dev/null 2>&1; rm -rf "$WT"' EXIT
if ! git -C "$WT" apply "$PATCH"; then echo "PATCH DOES NOT APPLY"; exit 3; fi
if [ "${SUITE:-0}" = 1 ]; then
  if /verif/tools/baseline.sh "$WT" >/tmp/seedtest-suite.log 2>&1; then echo "suite: PASS"; else echo "suite: FAIL"; tail -20 /tmp/seedtest-suite.log; fi
fi
cd /verif
VERIF_REPO="$WT" ./check "$PROP" "$TIER" 2>&1 | grep -v "^  " | cut -c1-400 | tail -${LINES_OUT:-6}
echo "exit=${PIPESTATUS[0]}"
