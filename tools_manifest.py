#!/usr/bin/env python3
"""Regenerates MANIFEST.json from the table below (kept in one place so it stays valid)."""
import json, sys
claimed = json.load(open('manifest_checks.json'))
allp = [json.loads(l)['id'] for l in open('properties.jsonl')]
checks = []
for pid in allp:
    if pid not in claimed: continue
    c = claimed[pid]
    checks.append({
        "property_id": pid,
        "quick_cmd": f"./check {pid} quick",
        "thorough_cmd": f"./check {pid} thorough",
        "evidence_file": f"/verif/evidence/{pid}.json",
        "replay_cmd_template": f"./check {pid} --replay {{path}}",
        "engine": c["engine"],
        "level_claimed": {"category": c["category"], "text": c["text"], "design_ref": c["design_ref"]},
        "level_note": c["note"],
        "technique": c["technique"],
    })
na = [{"property_id": p, "reason": "check not built yet in this session (planned, see DESIGN.md section 7); not claimed until its check runs silently on the unchanged tree"} for p in allp if p not in claimed]
m = {
 "version": 1,
 "setup_cmd": "./setup.sh",
 "hooks": {"guard": "verif", "enable": "checks build the snapshot of /repo with -tags verif (no hook commits exist: providers are the checks' own code, crash points come from strace, allocator tests are overlaid on a scratch copy)",
           "baseline_off_cmd": "cd /repo && go test -vet=off -count=1 ./...", "source_commits": [], "add_only": True},
 "engines": [
  {"name": "kgen", "path": "harness/spec harness/mat harness/band harness/props", "serves_properties": [p for p in allp if p in claimed and claimed[p]["engine"]=="kgen"], "kind_free_text": "rapid generators of Inject declarations -> real CLI -> go/types + instrumented execution under a scheduler owned by the check (testing/synctest)"},
  {"name": "fsx", "path": "harness/fsx harness/props", "serves_properties": [p for p in allp if p in claimed and claimed[p]["engine"]=="fsx"], "kind_free_text": "filesystem snapshot/diff oracle, strace syscall fault injection"},
  {"name": "wirespec", "path": "harness/props", "serves_properties": [p for p in allp if p in claimed and claimed[p]["engine"]=="wirespec"], "kind_free_text": "rapid generator of google/wire configurations, differential against wire gen"},
 ],
 "checks": checks,
 "not_applicable": na,
 "notes": "All checks: ./check <id> quick|thorough; exit 0 held / 1 VIOLATION / 2 inconclusive. VERIF_SEED selects the rapid seeds of all shards. Known findings: known_findings.json.",
}
json.dump(m, open('MANIFEST.json','w'), indent=1)
print("claimed", len(checks), "not_applicable", len(na))
