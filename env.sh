export PATH=/opt/veriftools/go1.26.8/bin:$PATH GOROOT=/opt/veriftools/go1.26.8 GOTOOLCHAIN=local GOPROXY=off GOFLAGS=-mod=mod GOSUMDB=off GOWORK=off
