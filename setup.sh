#!/bin/bash
# Builds the verification framework from files on disk only (offline).
set -euo pipefail
cd "$(dirname "$0")"
export PATH=/opt/veriftools/go1.26.8/bin:$PATH GOROOT=/opt/veriftools/go1.26.8 GOTOOLCHAIN=local GOPROXY=off GOFLAGS=-mod=mod GOSUMDB=off GOWORK=off
mkdir -p bin out evidence
cd harness
go build -o ../bin/verifctl ./ctl
go test -c -o ../bin/verif.test ./props
echo "setup ok"
