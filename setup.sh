#!/bin/bash
# Builds the verification framework from files on disk only (offline), and a warm base
# build cache (out/gocache-base) that every check run clones by hard links.
set -euo pipefail
cd "$(dirname "$0")"
export PATH=/opt/veriftools/go1.26.8/bin:$PATH GOROOT=/opt/veriftools/go1.26.8 GOTOOLCHAIN=local GOPROXY=off GOFLAGS=-mod=mod GOSUMDB=off GOWORK=off
mkdir -p bin out evidence
BASE="$PWD/out/gocache-base"
if [ "${1:-}" = "--fast" ] && [ -d "$BASE" ]; then
  # rebuild the framework binaries only (development)
  (cd harness && GOCACHE="$BASE" go build -o ../bin/verifctl ./ctl && GOCACHE="$BASE" go test -c -o ../bin/verif.test ./props)
  echo "setup ok (fast)"; exit 0
fi
rm -rf "$BASE.tmp"; mkdir -p "$BASE.tmp"
export GOCACHE="$BASE.tmp" VERIF_GOCACHE="$BASE.tmp"
(cd harness && go build -o ../bin/verifctl ./ctl && go test -c -o ../bin/verif.test ./props)
VERIF_DIR="$PWD" bin/verifctl --warm-cache
rm -rf "$BASE"; mv "$BASE.tmp" "$BASE"
echo "setup ok"
