#!/bin/bash
# validates MANIFEST.json and every evidence file against the schemas
cd "$(dirname "$0")"
python3-vt - <<'PY'
import json, jsonschema, glob, sys
ok=True
try:
    jsonschema.validate(json.load(open('MANIFEST.json')), json.load(open('/root/.vp/MANIFEST.schema.json')))
except Exception as e:
    ok=False; print("MANIFEST invalid:", e)
s=json.load(open('/root/.vp/EVIDENCE.schema.json'))
for f in sorted(glob.glob('evidence/*.json')):
    try: jsonschema.validate(json.load(open(f)), s)
    except Exception as e:
        ok=False; print(f, "invalid:", str(e)[:300])
print("valid" if ok else "INVALID")
sys.exit(0 if ok else 1)
PY
