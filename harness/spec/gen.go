package spec

import (
	"fmt"

	"pgregory.net/rapid"
)

// Opts steers the generator. Every optional construct is a named feature.
type Opts struct {
	MinProv, MaxProv int
	Allow            map[string]bool // features that may be generated
	AsyncMode        string          // "" (drawn) | none | some | all
	MaxInjectors     int
	MaxFiles         int
	Adversarial      bool // naming adversary (C04/C11/C12)
	RootBias         bool // more providers without parameters (C05)
	ErrBias          bool // more fallible providers (C06)
	WideBias         bool // now and then a wide fan: many providers next to each other, one join (C03)
	OnExclude        func(feature string)
}

// All features known to the generator.
var AllFeatures = []string{
	"async", "err", "multi", "bind", "struct", "value", "sets", "lit", "ext", "ctxparam",
	"composite", "basic", "args", "unneeded", "multi-inj", "multi-file", "dupparam",
	"generic", "variadic", "variadic-functype", "want-unsupplied", "kalias", "extalias", "value-and-pointer", "rewrap", "struct-both-forms", "alias-basic", "ctx-provider", "implements-error", "adv-pkg-shadowed-by-later-decl", "value-literal", "multi-var-sets", "ext-method-value", "err-alias", "struct-through-alias", "generic-alias-instance", "ext-alias-differs-between-files", "chan-of-recv-chan", "ctx-alias", "set-included-twice", "prov-func-var-named-type", "nested-struct-expansion", "local-provider-ext-result", "arg-ext-type", "arg-hidden-ext", "set-ref-paren", "set-decl-paren", "set-alias-var", "elem-paren", "elem-hoisted-var", "inject-spelling", "prov-func-var",
	"async-struct", "ptrrecv", "aiface", "embedded",
}

func AllowAll(except ...string) map[string]bool {
	m := map[string]bool{}
	for _, f := range AllFeatures {
		m[f] = true
	}
	for _, e := range except {
		delete(m, e)
	}
	return m
}

type gen struct {
	rt   *rapid.T
	c    *Case
	o    Opts
	used map[string]bool // identifiers used at package level
	nameSeq map[string]int
	supplied []TypeID // types supplied by some unit (creation order)
	supplierUnit map[TypeID]int // type -> unit index
	argTypes []TypeID
	basicsUsed map[string]bool
	units []Elem
	unitGroup []int // unit -> group (0 = direct, k>0 = set k-1)
	vid int
	pid int
	hasAsync bool
	consumed map[TypeID]bool
	last     bool
	curExt   string
	family   string
	ctxSupplied bool
	aliasType   TypeID
	ctxUsed     bool
	bundle   map[TypeID][]TypeID // field type -> sibling field types and the struct type of its expansion
	pending  map[TypeID]bool
	roots    int // the first `roots` units take no provided inputs (fork), the last unit joins
	errAliasDeclared bool
	rootJoin bool // scenario of the C05 generator, see Gen
	boxOfDeclared bool
	ctxAliasDeclared bool
	preferWant TypeID // an interface bound to a local provider's external result: a good requested type
	hiddenArg map[TypeID]bool // argument types of the hidden external package (only ext providers may take them)
	wide     bool // fan shape: every inner unit takes at most one of the first supplied types, the last unit joins all
	crossFrom int // wide fan only: units from this index on (but the last) all take the same two fanned-out results ("cross pair")
	crossPair []TypeID
}

func (g *gen) allow(f string) bool {
	if g.o.Allow[f] {
		return true
	}
	return false
}

// want draws a boolean that is only true when the feature is allowed; the draw is made
// in any case so that the decision stream is stable, and steered-away cases are counted.
func (g *gen) want(f string, label string, pct int) bool {
	v := rapid.IntRange(0, 99).Draw(g.rt, label) >= 100-pct
	if !v {
		return false
	}
	if !g.allow(f) {
		if g.o.OnExclude != nil {
			g.o.OnExclude(f)
		}
		return false
	}
	g.c.AddFeature(f)
	return true
}

func letters(n int) string {
	return string(rune('a'+(n/26)%26)) + string(rune('a'+n%26))
}

// Pools of the naming adversary: identifiers designed against the generator's name
// allocator (base = lowerCamel(type name), numeric suffixes, hard-coded locals).
var advTypeNames = []string{"Über", "Élan", "Ωmega", "ÀB", "Eg", "Ctx", "Ch", "Zero", "Err", "Errgroup", "Context", "Kessoku", "Foo", "Foo0", "Foo1", "Foo00", "FooCh", "FooCh0",
	"Num", "Num0", "Str", "Str0", "Val", "Val0", "Val1", "ValCh", "Flag", "Type", "Func", "Range", "Go", "String", "Error", "Len", "Close", "Make", "New", "Nil", "Any",
	"Config", "Err0", "Err1", "Ctx0", "Eg0", "Ptr", "Complex", "Null", "Invalid", "Arg0", "Result0", "ID", "HTTPServer", "Select", "Default", "Var", "Chan", "Map", "Struct", "Interface", "Package", "Import", "Return", "Defer", "Bool", "Int", "Append", "Panic", "True", "Iota"}
var advPkgNames = []string{"num", "str0", "config", "err0", "ctx", "eg", "val", "valCh", "foo0", "fooCh", "zero", "ch", "err", "errgroup", "context0", "num0", "foo", "flag", "str"}
var advInjNames = []string{"foo", "eg", "ctx", "err", "zero", "ch", "config", "val", "num", "initFoo", "foo0", "errgroup", "context"}

// importNameTaken reports whether a package-level identifier n would collide with an
// import name used by some file of the user package (such a package cannot compile,
// whatever the generator does, so these names are not valid inputs).
func (g *gen) importNameTaken(n string) bool {
	if n == "kessoku" && g.c.KAlias == "" || n == g.c.KAlias || n == "vrt" {
		return true
	}
	for i := range g.c.Exts {
		e := &g.c.Exts[i]
		if e.Alias == n || e.Alias == "" && e.Name == n {
			return true
		}
	}
	if n == "context" {
		for i := range g.c.Provs {
			for _, p := range g.c.Provs[i].Params {
				if p == CtxType {
					return true
				}
			}
			for _, p := range g.c.Provs[i].Results {
				if p == CtxType {
					return true
				}
			}
		}
	}
	return false
}

var reservedLower = map[string]bool{"go": true, "if": true, "in": true, "do": true, "ok": true, "eg": true, "ch": true, "id": true}

var advFamilies = []string{"Foo", "Val", "Err", "Num", "Ctx", "Str", "Eg", "Config", "X"}

// familyNames are the members of a name family: the base, suffixed look-alikes and channel look-alikes.
func familyNames(base string) []string {
	return []string{base, base + "0", base + "Ch", base + "1", base + "Ch0", base + "00", base + "0Ch", base + "Ch1"}
}

// typeName returns a fresh type name: from the adversarial pool when the adversary is on.
func (g *gen) typeName(prefix string) string {
	if g.o.Adversarial && g.family != "" && rapid.IntRange(0, 99).Draw(g.rt, "famname") < 45 {
		// names of one family collide with each other's generated variable / channel names
		fam := familyNames(g.family)
		k := rapid.IntRange(0, len(fam)-1).Draw(g.rt, "famidx")
		for i := 0; i < len(fam); i++ {
			n := fam[(k+i)%len(fam)]
			if !g.used[n] {
				g.used[n] = true
				g.c.AddFeature("adv-names")
				g.c.AddFeature("adv-name-family")
				return n
			}
		}
	}
	if g.o.Adversarial && rapid.IntRange(0, 99).Draw(g.rt, "advname") < 55 {
		k := rapid.IntRange(0, len(advTypeNames)-1).Draw(g.rt, "advidx")
		for i := 0; i < len(advTypeNames); i++ {
			n := advTypeNames[(k+i)%len(advTypeNames)]
			if !g.used[n] {
				g.used[n] = true
				g.c.AddFeature("adv-names")
				return n
			}
		}
	}
	return g.name(prefix)
}

// name returns a fresh package-level identifier with the given prefix.
func (g *gen) name(prefix string) string {
	for {
		n := g.nameSeq[prefix]
		g.nameSeq[prefix]++
		s := prefix + letters(n)
		if g.used[s] {
			continue
		}
		g.used[s] = true
		return s
	}
}

func (g *gen) addType(t Type) TypeID {
	// intern unnamed types
	if t.Name == "" {
		for i := range g.c.Types {
			x := &g.c.Types[i]
			if x.Kind == t.Kind && x.Elem == t.Elem && x.Key == t.Key && x.HasKey == t.HasKey && x.Basic == t.Basic && x.Len == t.Len && x.RecvOnly == t.RecvOnly && x.Variadic == t.Variadic {
				return x.ID
			}
		}
	}
	t.ID = TypeID(len(g.c.Types))
	g.c.Types = append(g.c.Types, t)
	return t.ID
}

var basics = []string{"string", "int", "bool", "float64", "int64", "uint", "byte"}
var nbasicUnder = []string{"int", "string", "int64", "float64", "uint", "bool"}

func (g *gen) ensureExt() *Ext {
	if len(g.c.Exts) == 0 {
		e := Ext{Key: "ext", Path: "extlib", Name: "extlib"}
		if g.o.Adversarial {
			switch rapid.IntRange(0, 5).Draw(g.rt, "advext") {
			case 1:
				e.Path, e.Name = "x/errgroup", "errgroup"
				g.c.AddFeature("adv-pkg-errgroup")
			case 2:
				e.Path, e.Name = "a/util", "util"
				g.c.AddFeature("adv-pkg-util")
			case 3:
				e.Path, e.Name = "x/kessoku", "kessoku"
				g.c.KAlias = "ksk"
				g.c.AddFeature("adv-pkg-kessoku")
			case 4:
				// the package is imported under an alias; its plain name is also a package-level
				// identifier of the user package, declared in a file that sorts after the injector files
				e.Path, e.Name, e.Alias = "x/config", "config", "cfgx"
				if !g.used["config"] {
					g.used["config"] = true
					g.c.PkgNames = append(g.c.PkgNames, "config")
				}
				g.c.AddFeature("adv-pkg-shadowed-by-later-decl")
			}
		}
		if e.Name == "extlib" && g.want("extalias", "extalias", 30) {
			e.Alias = "xl"
		}
		g.c.Exts = append(g.c.Exts, e)
		if e.Name == "util" && rapid.Bool().Draw(g.rt, "util2") {
			g.c.Exts = append(g.c.Exts, Ext{Key: "ext2", Path: "b/util", Name: "util", Alias: "util2"})
			g.c.AddFeature("adv-pkg-util-twice")
		}
	}
	if len(g.c.Exts) > 1 && !g.c.Exts[1].Hidden && rapid.Bool().Draw(g.rt, "whichext") {
		return &g.c.Exts[1]
	}
	return &g.c.Exts[0]
}

// newStruct creates a named struct; withFields adds 1-3 exported fields of fresh types.
func (g *gen) newStruct(pkg string, withFields bool) TypeID {
	prefix := "T"
	if pkg != "" {
		prefix = "E"
	}
	nm := ""
	if pkg == "" {
		nm = g.typeName(prefix)
	} else {
		// names of external types are unique per package only: two packages (even two with the
		// same package name) may both declare an Eaa
		k := "exttype:" + pkg
		nm = prefix + letters(g.nameSeq[k])
		g.nameSeq[k]++
	}
	t := Type{Kind: KStruct, Name: nm, Pkg: pkg}
	if withFields {
		n := rapid.IntRange(1, 3).Draw(g.rt, "nfields")
		for i := 0; i < n; i++ {
			var ft TypeID
			if pkg != "" {
				ft = g.freshFieldTypeExt(pkg)
			} else {
				ft = g.freshFieldType()
			}
			f := Field{Name: "F" + string(rune('A'+(n-1-i))), Type: ft} // reverse alphabetical on purpose
			if pkg == "" && g.c.T(ft).Kind == KStruct && g.c.T(ft).Pkg == "" && g.want("embedded", "embedded", 35) {
				// embedded field: its name is the type name
				f.Name = g.c.T(ft).Name
				f.Emb = true
			}
			t.Fields = append(t.Fields, f)
		}
	}
	if pkg == "" && g.want("ptrrecv", "ptrrecv", 20) {
		t.PtrRecv = true
	}
	if pkg == "" && !withFields && g.want("implements-error", "implerror", 6) {
		// a value type that happens to implement the error interface is still a value
		t.ImplError = true
	}
	return g.addType(t)
}

// freshFieldType: a type nobody else supplies (named basic, plain struct, composite of one).
func (g *gen) freshFieldType() TypeID {
	switch rapid.IntRange(0, 3).Draw(g.rt, "fieldkind") {
	case 0:
		return g.addType(Type{Kind: KNBasic, Name: g.name("N"), Basic: rapid.SampledFrom(nbasicUnder[:5]).Draw(g.rt, "under")})
	case 1:
		return g.addType(Type{Kind: KStruct, Name: g.name("T")})
	case 2:
		s := g.addType(Type{Kind: KStruct, Name: g.name("T")})
		return g.addType(Type{Kind: KPtr, Elem: s})
	default:
		if g.allow("composite") {
			s := g.addType(Type{Kind: KNBasic, Name: g.name("N"), Basic: "int"})
			return g.addType(Type{Kind: KSlice, Elem: s})
		}
		return g.addType(Type{Kind: KNBasic, Name: g.name("N"), Basic: "int"})
	}
}

func (g *gen) freshFieldTypeExt(pkg string) TypeID {
	return g.addType(Type{Kind: KNBasic, Name: g.name("M"), Pkg: pkg, Basic: rapid.SampledFrom([]string{"int", "string", "int64"}).Draw(g.rt, "under")})
}

// freshValueType creates a type that no unit supplies yet.
func (g *gen) freshValueType(extOnly bool, label string) TypeID {
	if extOnly {
		s := g.newStruct(g.curExt, false)
		if rapid.Bool().Draw(g.rt, label+"-ptr") {
			return g.addType(Type{Kind: KPtr, Elem: s})
		}
		return s
	}
	k := rapid.IntRange(0, 9).Draw(g.rt, label)
	switch k {
	case 0, 1, 2:
		s := g.newStruct("", false)
		return g.addType(Type{Kind: KPtr, Elem: s})
	case 3:
		// sometimes the value form of a struct whose pointer form is already supplied (or vice versa)
		if g.want("value-and-pointer", "valptr", 35) {
			for i := len(g.supplied) - 1; i >= 0; i-- {
				if g.supplied[i] == CtxType {
					continue
				}
				t := g.c.T(g.supplied[i])
				if t.Kind == KPtr && g.c.T(t.Elem).Kind == KStruct && g.c.T(t.Elem).Pkg == "" && len(g.c.T(t.Elem).Fields) == 0 {
					if _, taken := g.supplierUnit[t.Elem]; !taken && !g.pending[t.Elem] {
						g.pending[t.Elem] = true
						return t.Elem
					}
				}
			}
		}
		return g.newStruct("", false)
	case 4:
		return g.addType(Type{Kind: KNBasic, Name: g.typeName("N"), Basic: rapid.SampledFrom(nbasicUnder).Draw(g.rt, "under")})
	case 5:
		if g.aliasType != 0 && g.allow("composite") && rapid.IntRange(0, 99).Draw(g.rt, "aliascomp") < 50 {
			// a composite or generic instance over the two-spelling type: []byte vs []uint8, Box[any] vs Box[interface{}]
			k := rapid.IntRange(0, 2).Draw(g.rt, "aliascompkind")
			key := "aliascomp" + string(rune('0'+k))
			if !g.basicsUsed[key] {
				g.basicsUsed[key] = true
				g.c.AddFeature("alias-in-composite")
				switch k {
				case 0:
					return g.addType(Type{Kind: KSlice, Elem: g.aliasType})
				case 1:
					if g.allow("generic") {
						g.used["Box"] = true
						g.c.AddFeature("generic")
						return g.addType(Type{Kind: KGeneric, Name: "Box", Elem: g.aliasType})
					}
					return g.addType(Type{Kind: KArray, Elem: g.aliasType, Len: 2})
				default:
					ks := g.addType(Type{Kind: KBasic, Basic: "string"})
					return g.addType(Type{Kind: KMap, Key: ks, HasKey: true, Elem: g.aliasType})
				}
			}
		}
		if !g.basicsUsed["alias"] && g.want("alias-basic", "aliasbasic", 30) {
			// a type with two spellings: results say uint8 / int32, parameters say byte / rune
			g.basicsUsed["alias"] = true
			if rapid.Bool().Draw(g.rt, "aliaswhich") && !g.basicsUsed["byte"] {
				g.basicsUsed["byte"] = true
				g.aliasType = g.addType(Type{Kind: KBasic, Basic: "uint8", AltSpell: "byte"})
				return g.aliasType
			}
			if rapid.Bool().Draw(g.rt, "aliasany") {
				g.aliasType = g.addType(Type{Kind: KBasic, Basic: "interface{}", AltSpell: "any"})
				return g.aliasType
			}
			g.aliasType = g.addType(Type{Kind: KBasic, Basic: "int32", AltSpell: "rune"})
			return g.aliasType
		}
		if g.allow("basic") {
			var free []string
			for _, b := range basics {
				if !g.basicsUsed[b] {
					free = append(free, b)
				}
			}
			if len(free) > 0 {
				b := free[rapid.IntRange(0, len(free)-1).Draw(g.rt, "basic")]
				g.basicsUsed[b] = true
				g.c.AddFeature("basic")
				return g.addType(Type{Kind: KBasic, Basic: b})
			}
		}
		return g.newStruct("", false)
	case 6, 7:
		if g.allow("composite") {
			g.c.AddFeature("composite")
			s := g.newStruct("", false)
			if g.allow("ext") && rapid.IntRange(0, 99).Draw(g.rt, "compext") < 30 {
				// composite type whose only mention of the external package is inside it
				g.c.AddFeature("ext")
				g.c.AddFeature("composite-over-ext")
				s = g.newStruct(g.ensureExt().Key, false)
			}
			if rapid.Bool().Draw(g.rt, "compptr") {
				s = g.addType(Type{Kind: KPtr, Elem: s})
			}
			switch rapid.IntRange(0, 8).Draw(g.rt, "compkind") {
			case 0:
				return g.addType(Type{Kind: KSlice, Elem: s})
			case 1:
				return g.addType(Type{Kind: KArray, Elem: s, Len: 2})
			case 2:
				key := g.addType(Type{Kind: KBasic, Basic: "string"})
				return g.addType(Type{Kind: KMap, Key: key, HasKey: true, Elem: s})
			case 3:
				return g.addType(Type{Kind: KChan, Elem: s})
			case 4:
				rc := g.addType(Type{Kind: KChan, Elem: s, RecvOnly: true})
				if g.want("chan-of-recv-chan", "chanchan", 35) {
					return g.addType(Type{Kind: KChan, Elem: rc}) // chan (<-chan T): the parentheses matter
				}
				return rc
			case 5:
				if g.want("variadic-functype", "vft", 30) {
					key := g.addType(Type{Kind: KBasic, Basic: "string"})
					return g.addType(Type{Kind: KFunc, Elem: s, Key: key, HasKey: true, Variadic: true})
				}
				if rapid.Bool().Draw(g.rt, "funcparam") {
					key := g.addType(Type{Kind: KBasic, Basic: "int"})
					return g.addType(Type{Kind: KFunc, Elem: s, Key: key, HasKey: true})
				}
				return g.addType(Type{Kind: KFunc, Elem: s})
			case 6:
				return g.addType(Type{Kind: KAStruct, Elem: s})
			default:
				if g.allow("ext") && rapid.Bool().Draw(g.rt, "extkey") {
					// the only mention of the external package may be this map key
					g.c.AddFeature("ext")
					g.c.AddFeature("map-key-ext")
					e := g.ensureExt()
					key := g.addType(Type{Kind: KNBasic, Name: g.name("M"), Pkg: e.Key, Basic: "string"})
					return g.addType(Type{Kind: KMap, Key: key, HasKey: true, Elem: s})
				}
				key := g.addType(Type{Kind: KNBasic, Name: g.name("N"), Basic: "string"})
				return g.addType(Type{Kind: KMap, Key: key, HasKey: true, Elem: s})
			}
		}
		return g.newStruct("", false)
	case 8:
		if g.allow("ext") {
			g.c.AddFeature("ext")
			e := g.ensureExt()
			s := g.newStruct(e.Key, false)
			if rapid.Bool().Draw(g.rt, "extptr") {
				return g.addType(Type{Kind: KPtr, Elem: s})
			}
			return s
		}
		return g.newStruct("", false)
	default:
		if g.want("generic", "generic", 100) {
			g.c.AddFeature("generic")
			el := g.newStruct("", false)
			if rapid.Bool().Draw(g.rt, "generic-elem") && !g.basicsUsed["box-int"] {
				g.basicsUsed["box-int"] = true
				el = g.addType(Type{Kind: KBasic, Basic: "int"})
			}
			g.used["Box"] = true
			if !extOnly && g.used["BoxOf"] == g.boxOfDeclared && g.want("generic-alias-instance", "genalias", 30) {
				g.used["BoxOf"], g.boxOfDeclared = true, true
				if g.allow("ext") && rapid.Bool().Draw(g.rt, "genalias-ext-arg") {
					// the type argument lives in another package: BoxOf[extlib.Eaa]
					el = g.newStruct(g.ensureExt().Key, false)
				}
				return g.addType(Type{Kind: KGeneric, Name: "Box", Elem: el, GenAlias: true})
			}
			return g.addType(Type{Kind: KGeneric, Name: "Box", Elem: el})
		}
		s := g.newStruct("", false)
		return g.addType(Type{Kind: KPtr, Elem: s})
	}
}

func (g *gen) freshArgType() TypeID {
	switch rapid.IntRange(0, 3).Draw(g.rt, "argkind") {
	case 0:
		return g.addType(Type{Kind: KStruct, Name: g.typeName("A")})
	case 1:
		s := g.addType(Type{Kind: KStruct, Name: g.typeName("A")})
		return g.addType(Type{Kind: KPtr, Elem: s})
	case 2:
		return g.addType(Type{Kind: KNBasic, Name: g.name("N"), Basic: rapid.SampledFrom(nbasicUnder[:5]).Draw(g.rt, "under")})
	default:
		if g.allow("composite") {
			s := g.addType(Type{Kind: KStruct, Name: g.name("A")})
			return g.addType(Type{Kind: KSlice, Elem: s})
		}
		return g.addType(Type{Kind: KStruct, Name: g.name("A")})
	}
}

func (g *gen) isExtOrBasic(id TypeID) bool {
	if id == CtxType {
		return false
	}
	t := g.c.T(id)
	switch t.Kind {
	case KBasic:
		return true
	case KStruct, KNBasic, KIface:
		return t.Pkg != "" && t.Pkg == g.curExt
	case KPtr:
		return g.isExtOrBasic(t.Elem)
	}
	return false
}

func (g *gen) supply(t TypeID, unit int) {
	g.supplied = append(g.supplied, t)
	g.supplierUnit[t] = unit
}

func (g *gen) drawAsync(label string) bool {
	if !g.allow("async") {
		return false
	}
	if g.rootJoin && g.o.AsyncMode != "none" {
		return len(g.units) <= 3 // the roots and their join run in goroutines, everything after them on the calling thread
	}
	if g.wide && g.o.AsyncMode != "none" {
		// fan: the base units mostly stay on the calling thread, the fanned-out units mostly run in goroutines
		if len(g.units) < 2 {
			return rapid.Bool().Draw(g.rt, label+"-base0") && rapid.Bool().Draw(g.rt, label+"-base1") && rapid.Bool().Draw(g.rt, label+"-base2")
		}
		if !g.last && g.crossFrom > 0 && rapid.Bool().Draw(g.rt, label+"-crossfan") {
			return true
		}
		if !g.last {
			return rapid.Bool().Draw(g.rt, label+"-fan0") || rapid.Bool().Draw(g.rt, label+"-fan1") || rapid.Bool().Draw(g.rt, label+"-fan2")
		}
	}
	switch g.o.AsyncMode {
	case "none":
		return false
	case "all":
		return true
	}
	return rapid.IntRange(0, 99).Draw(g.rt, label) < 45
}

// Gen draws a valid case: acyclic and unambiguous by construction.
func Gen(rt *rapid.T, o Opts) *Case {
	if o.MaxProv == 0 {
		o.MaxProv = 8
	}
	if o.MinProv == 0 {
		o.MinProv = 1
	}
	if o.MaxInjectors == 0 {
		o.MaxInjectors = 1
	}
	if o.MaxFiles == 0 {
		o.MaxFiles = 1
	}
	g := &gen{rt: rt, c: &Case{}, o: o, used: map[string]bool{}, nameSeq: map[string]int{}, supplierUnit: map[TypeID]int{}, basicsUsed: map[string]bool{}, hiddenArg: map[TypeID]bool{}, consumed: map[TypeID]bool{}, pending: map[TypeID]bool{}, bundle: map[TypeID][]TypeID{}}
	g.c.Types = []Type{{ID: 0, Kind: "none"}}
	if g.want("kalias", "kalias", 10) {
		g.c.KAlias = "ksk"
	}
	if o.Adversarial && rapid.IntRange(0, 99).Draw(rt, "usefamily") < 60 {
		g.family = rapid.SampledFrom(advFamilies).Draw(rt, "family")
	}
	if o.AsyncMode == "" {
		g.o.AsyncMode = rapid.SampledFrom([]string{"some", "some", "some", "all", "none"}).Draw(rt, "asyncmode")
	}
	nUnits := rapid.IntRange(o.MinProv, o.MaxProv).Draw(rt, "nprov")
	if o.WideBias && rapid.IntRange(0, 99).Draw(rt, "wide") >= 72 {
		g.wide = true
		nUnits = rapid.IntRange(9, 16).Draw(rt, "nwide")
		g.c.AddFeature("wide-fan")
		if rapid.Bool().Draw(rt, "wide-cross") {
			// two or three units that each need the SAME two fanned-out results: with no spare
			// pool they are appended to the pools of those two results, which then need each other
			// (more of them than spare pools: the first ones take the pools left empty by
			// synchronous or value units among the fan)
			g.crossFrom = max(4, nUnits-1-rapid.IntRange(2, 5).Draw(rt, "ncross"))
		}
	} else if nUnits >= 3 {
		g.roots = rapid.IntRange(0, min(5, nUnits-1)).Draw(rt, "roots")
		if o.RootBias && rapid.IntRange(0, 5).Draw(rt, "rootjoin") == 5 {
			// three input-free Async roots, an Async unit joining the first two, the third root
			// reached later: pools are scarce exactly when the join is placed
			g.rootJoin = true
			g.roots = 3
			nUnits = rapid.IntRange(5, 6).Draw(rt, "nrootjoin")
			g.c.AddFeature("root-join")
		} else if o.RootBias && nUnits >= 5 && rapid.Bool().Draw(rt, "manyroots") {
			// several independent roots and consumers that join two or three of them
			g.roots = rapid.IntRange(3, min(5, nUnits-2)).Draw(rt, "nroots")
		}
	}
	for i := 0; i < nUnits; i++ {
		g.last = i == nUnits-1 && nUnits > 1
		g.genUnit(i)
	}
	g.genGroupsAndInjectors()
	// the same package under different names in different files of the user package
	if len(g.c.Exts) == 1 && g.c.Exts[0].Alias != "" && !g.used[g.c.Exts[0].Name] && !g.c.HasInjectorNamed(g.c.Exts[0].Name) && g.want("ext-alias-differs-between-files", "otherplain", 50) {
		g.c.OtherFilesPlain = true
		g.used[g.c.Exts[0].Name] = true // the plain name is an import name now: no package-level identifier may take it
	}
	if o.Adversarial {
		n := rapid.IntRange(0, 4).Draw(rt, "npkgnames")
		for i := 0; i < n; i++ {
			nm := rapid.SampledFrom(advPkgNames).Draw(rt, "pkgname")
			if g.family != "" && rapid.Bool().Draw(rt, "fampkgname") {
				fam := familyNames(g.family)
				nm = lowerCamel(fam[rapid.IntRange(0, len(fam)-1).Draw(rt, "fampkgidx")])
			}
			if !g.used[nm] && !goReserved[nm] && !g.importNameTaken(nm) {
				g.used[nm] = true
				g.c.PkgNames = append(g.c.PkgNames, nm)
				g.c.AddFeature("adv-pkg-level-names")
			}
		}
		if len(g.c.PkgNames) > 0 && rapid.Bool().Draw(rt, "names-in-foreign-generated-file") {
			// the file declaring them was written by some other generator
			g.c.NamesGenerated = true
			g.c.AddFeature("adv-names-in-foreign-generated-file")
		}
	}
	return g.c
}

func (g *gen) genUnit(i int) {
	// value unit?
	crossUnit := g.wide && g.crossFrom > 0 && i >= g.crossFrom && !g.last
	if crossUnit && g.crossPair == nil {
		// the pair: results of two different fanned-out units, fixed for the case
		var fanTypes []TypeID
		seenUnit := map[int]bool{}
		for _, t := range g.supplied {
			if u := g.supplierUnit[t]; u >= 2 && !seenUnit[u] && t != CtxType && g.units[u].Kind != "value" {
				seenUnit[u] = true
				fanTypes = append(fanTypes, t)
			}
		}
		if len(fanTypes) >= 2 {
			a := rapid.IntRange(0, len(fanTypes)-2).Draw(g.rt, "cross-a")
			b := rapid.IntRange(a+1, len(fanTypes)-1).Draw(g.rt, "cross-b")
			g.crossPair = []TypeID{fanTypes[a], fanTypes[b]}
			g.c.AddFeature("wide-cross-pair")
		} else {
			g.crossFrom = 0
			crossUnit = false
		}
	}
	if i > 0 && !g.last && !crossUnit && !(g.rootJoin && i <= 3) && g.want("value", "isvalue", 12) {
		t := g.freshValueType(false, "valtype")
		if g.c.T(t).Kind == KGeneric {
			// keep values simple
		}
		g.vid++
		h := uint32(rapid.IntRange(1, 1<<20).Draw(g.rt, "valh"))
		// an untyped constant as value: kessoku.Value(42) / kessoku.Value("42")
		for _, b := range []string{"int", "string"} {
			if !g.basicsUsed[b] && g.allow("basic") && g.want("value-literal", "valliteral", 25) {
				g.basicsUsed[b] = true
				t = g.addType(Type{Kind: KBasic, Basic: b})
				g.units = append(g.units, Elem{Kind: "value", Value: t, VID: g.vid, H: h, Literal: true})
				g.supply(t, len(g.units)-1)
				return
			}
		}
		g.units = append(g.units, Elem{Kind: "value", Value: t, VID: g.vid, H: h})
		g.supply(t, len(g.units)-1)
		return
	}
	g.pid++
	p := Prov{ID: g.pid, Form: "func"}
	extForm := false
	if !crossUnit && g.want("ext", "extform", 12) { // a provider of an external package cannot take the user package's types
		extForm = true
		p.Form = "ext"
		p.Pkg = g.ensureExt().Key
		g.curExt = p.Pkg
		if g.want("ext-method-value", "extmethod", 30) {
			p.Method = true // kessoku.Provide(pkg.Factory.NewX): a selector chain rooted in the package
		}
	} else if g.want("lit", "litform", 12) {
		p.Form = "lit"
	} else if g.want("prov-func-var", "funcvar", 10) {
		p.FuncVar = true // var NewX = func(...) ...: a function variable instead of a function
		if g.want("prov-func-var-named-type", "funcvartype", 45) {
			p.FuncVarType = rapid.SampledFrom([]string{"named", "alias"}).Draw(g.rt, "funcvarkind")
		}
	}
	// parameters
	maxP := 4
	nParams := rapid.IntRange(0, maxP).Draw(g.rt, "nparams")
	if i == 0 && nParams > 1 {
		nParams = 1
	}
	if g.o.RootBias && !g.last && rapid.IntRange(0, 99).Draw(g.rt, "rootbias") < 45 {
		nParams = 0
	}
	if g.last && nParams < 2 {
		nParams = rapid.IntRange(2, 5).Draw(g.rt, "lastparams")
	}
	if g.wide {
		if g.last {
			nParams = 0
			for _, s := range g.supplied {
				if !g.consumed[s] {
					nParams++
				}
			}
			if g.crossFrom > 0 {
				nParams = max(2, min(nParams, 14)) // every result of the cross units has a consumer
			} else {
				nParams = max(2, min(nParams, 10))
			}
		} else if i >= 2 {
			// fanned-out units mostly hang off a base unit (three out of four)
			nParams = 1
			if rapid.Bool().Draw(g.rt, "fan-free0") && rapid.Bool().Draw(g.rt, "fan-free1") {
				nParams = 0
			}
		} else if nParams > 1 {
			nParams = 1
		}
	}
	if crossUnit {
		nParams = 0
		p.Params = append(p.Params, g.crossPair...)
	}
	rootUnit := i < g.roots
	if rootUnit && g.o.RootBias {
		nParams = 0 // input-free roots
	}
	if g.rootJoin && i == 4 && !g.last {
		// a synchronous unit hanging off the third root only
		nParams = 0
		for _, t := range g.supplied {
			if g.supplierUnit[t] == 2 && t != CtxType {
				g.consumed[t] = true
				p.Params = append(p.Params, t)
				break
			}
		}
	}
	if g.rootJoin && i == 3 && len(g.supplied) >= 2 {
		// the join of the first two roots
		nParams = 0
		for u := 0; u < 2; u++ {
			for _, t := range g.supplied {
				if g.supplierUnit[t] == u && t != CtxType {
					g.consumed[t] = true
					p.Params = append(p.Params, t)
					break
				}
			}
		}
	}
	seen := map[TypeID]bool{}
	for k := 0; k < nParams; k++ {
		src := rapid.IntRange(0, 9).Draw(g.rt, "psrc")
		if g.last && (src >= 8 || g.wide) {
			src = 0
		}
		if rootUnit && src <= 7 {
			src = 8 // roots take arguments only
			if rapid.Bool().Draw(g.rt, "rootnoarg") {
				continue
			}
		}
		var t TypeID
		switch {
		case src <= 7 && len(g.supplied) > 0:
			var cands []TypeID
			for _, s := range g.supplied {
				if extForm && !g.isExtOrBasic(s) {
					continue
				}
				// prefer types nobody consumed yet: the graph stays connected and the cone of the last provider is deep
				if src <= 5 && g.consumed[s] {
					continue
				}
				if seen[s] {
					continue
				}
				cands = append(cands, s)
			}
			if g.wide && !g.last {
				// fan: inner units hang off the first two supplied types only
				cands = nil
				for k, s := range g.supplied {
					if k < 2 && !(extForm && !g.isExtOrBasic(s)) {
						cands = append(cands, s)
					}
				}
			}
			if len(cands) == 0 {
				for _, s := range g.supplied {
					if extForm && !g.isExtOrBasic(s) {
						continue
					}
					cands = append(cands, s)
				}
			}
			if len(cands) == 0 {
				continue
			}
			j := rapid.IntRange(0, len(cands)-1).Draw(g.rt, "pidx")
			t = cands[len(cands)-1-j]
		case src == 9 && !extForm:
			if !g.want("ctxparam", "ctxp", 100) {
				continue
			}
			t = CtxType
		default:
			if extForm && g.allow("args") && g.want("arg-hidden-ext", "arghidden", 35) {
				// the provider of an external package takes a value of ANOTHER external package that
				// the user package itself never imports and whose name is that of the first one:
				// nobody supplies it, so it becomes an injector argument
				h := g.c.Ext("exth")
				if h == nil {
					base := g.c.Ext(p.Pkg)
					g.c.Exts = append(g.c.Exts, Ext{Key: "exth", Path: "hidden/" + base.Name, Name: base.Name, Alias: base.Name + "H", Hidden: true})
					h = g.c.Ext("exth")
				}
				s := g.newStruct("exth", false)
				t = s
				if rapid.Bool().Draw(g.rt, "arghiddenptr") {
					t = g.addType(Type{Kind: KPtr, Elem: s})
				}
				g.argTypes = append(g.argTypes, t)
				g.hiddenArg[t] = true
				g.c.AddFeature("args")
				break
			}
			if extForm || !g.allow("args") {
				continue
			}
			g.c.AddFeature("args")
			if len(g.argTypes) > 0 && rapid.Bool().Draw(g.rt, "reusearg") {
				t = g.argTypes[rapid.IntRange(0, len(g.argTypes)-1).Draw(g.rt, "argidx")]
				if g.hiddenArg[t] {
					continue
				}
			} else if g.allow("ext") && g.want("arg-ext-type", "argext", 22) {
				// an injector argument whose type lives in another package: the declaration file
				// need not import that package at all (only the provider's file does)
				e := g.ensureExt()
				s := g.newStruct(e.Key, false)
				t = s
				if rapid.Bool().Draw(g.rt, "argextptr") {
					t = g.addType(Type{Kind: KPtr, Elem: s})
				}
				g.argTypes = append(g.argTypes, t)
			} else {
				t = g.freshArgType()
				g.argTypes = append(g.argTypes, t)
			}
		}
		if seen[t] {
			if t == CtxType || !g.want("dupparam", "dupparam", 100) {
				continue
			}
		}
		seen[t] = true
		g.consumed[t] = true
		p.Params = append(p.Params, t)
		// siblings: a consumer of one field of an expanded struct often takes another field of it
		// (or the struct itself) as well
		if sibs := g.bundle[t]; len(sibs) > 0 && !extForm && len(p.Params) < 5 && rapid.IntRange(0, 99).Draw(g.rt, "sibling") < 55 {
			s := sibs[rapid.IntRange(0, len(sibs)-1).Draw(g.rt, "sibidx")]
			if !seen[s] {
				seen[s] = true
				g.consumed[s] = true
				p.Params = append(p.Params, s)
				g.c.AddFeature("struct-siblings-one-consumer")
			}
		}
	}
	// variadic: append a slice-typed parameter that is spelled ...Elem
	if !extForm && g.want("variadic", "variadic", 8) {
		el := g.addType(Type{Kind: KNBasic, Name: g.typeName("N"), Basic: "int"})
		sl := g.addType(Type{Kind: KSlice, Elem: el})
		// the slice is either an injector argument or supplied by an earlier value/provider
		g.argTypes = append(g.argTypes, sl)
		p.Params = append(p.Params, sl)
		p.Variadic = true
	}
	// a provider that RETURNS context.Context: consumers of context.Context must get its value
	takesCtx := false
	for _, t := range p.Params {
		if t == CtxType {
			takesCtx = true
		}
	}
	if takesCtx {
		g.ctxUsed = true
		if !extForm && (g.used["Ctx"] == g.ctxAliasDeclared) && g.want("ctx-alias", "ctxalias", 25) {
			// the context parameter is spelled through an alias of context.Context
			p.CtxAlias = true
			g.used["Ctx"], g.ctxAliasDeclared = true, true
		}
	}
	if !extForm && !g.ctxSupplied && !g.ctxUsed && i > 0 && !g.last && g.want("ctx-provider", "ctxprovider", 4) {
		g.ctxSupplied = true
		p.Results = []TypeID{CtxType}
		p.Name = g.name("NewCtxOf")
		g.c.Provs = append(g.c.Provs, p)
		g.units = append(g.units, Elem{Kind: "prov", Prov: p.ID, Async: g.drawAsync("async")})
		g.supply(CtxType, len(g.units)-1)
		return
	}
	// results
	nRes := 1
	if g.want("multi", "multi", 20) {
		nRes = rapid.IntRange(2, 3).Draw(g.rt, "nres")
	}
	locExt := false
	for k := 0; k < nRes; k++ {
		var t TypeID
		if k == 0 && !extForm && g.allow("struct") && rapid.IntRange(0, 99).Draw(g.rt, "withfields") < 18 {
			s := g.newStruct("", true)
			t = s
			if rapid.Bool().Draw(g.rt, "fieldsptr") {
				t = g.addType(Type{Kind: KPtr, Elem: s})
			}
		} else if k == 0 && !extForm && g.allow("ext") && (p.Form == "func" && g.want("local-provider-ext-result", "locext", 10) || p.Form == "lit" && g.want("local-provider-ext-result", "locext-lit", 45)) {
			// a provider of the user package whose result type lives in another package: the
			// declaration file need not mention that package anywhere
			e := g.ensureExt()
			t = g.addType(Type{Kind: KPtr, Elem: g.newStruct(e.Key, false)})
			locExt = true
			if p.Form == "lit" && e.Alias != "" && len(p.Params) > 0 && p.Params[0] != CtxType && !p.Variadic {
				// an inline provider whose first parameter is named like the package its body
				// mentions under an alias: func(extlib Taa) *xl.Eaa
				p.Param0Name = e.Name
				p.Err = true
				g.c.AddFeature("literal-param-named-like-aliased-package")
			}
		} else {
			t = g.freshValueType(extForm, "restype")
		}
		p.Results = append(p.Results, t)
	}
	errPct := 35
	if g.o.ErrBias {
		errPct = 65
	}
	if g.want("err", "err", errPct) {
		p.Err = true
		if !extForm && (g.used["Failure"] == g.errAliasDeclared) && g.want("err-alias", "erralias", 18) {
			// the error result is spelled through an alias of error
			p.ErrAlias = true
			g.used["Failure"], g.errAliasDeclared = true, true
		}
	}
	// name after the first result
	base := "Val"
	if st := g.c.StructOf(p.Results[0]); st != nil {
		base = st.Name
	} else if n := g.c.T(p.Results[0]).Name; n != "" {
		base = n
	}
	p.Name = "New" + base
	if g.used[p.Name] {
		p.Name = g.name("New" + base)
	}
	g.used[p.Name] = true
	g.c.Provs = append(g.c.Provs, p)

	e := Elem{Kind: "prov", Prov: p.ID, Async: g.drawAsync("async")}
	if e.Async {
		g.hasAsync = true
		g.c.AddFeature("async")
	}
	ui := len(g.units)
	// interface binding
	for ri, rtID := range p.Results {
		st := g.c.StructOf(rtID)
		if st == nil || (st.Pkg != "" && !locExt) || len(e.Bind) > 0 {
			continue
		}
		if st.PtrRecv && g.c.T(rtID).Kind != KPtr {
			continue
		}
		_ = ri
		if locExt && rapid.Bool().Draw(g.rt, "locext-bind") || g.want("bind", "bind", 30) {
			it := g.addType(Type{Kind: KIface, Name: g.typeName("I"), Impl: rtID, Method: ""})
			g.c.Types[int(it)].Method = "VH" + g.c.T(it).Name
			e.Bind = append(e.Bind, it)
			if locExt {
				g.preferWant = it // requested through the interface, the other package is mentioned nowhere else
			}
			if e.Async && rapid.Bool().Draw(g.rt, "asyncinner") {
				e.AsyncInner = true
			}
			g.supply(it, ui)
			if g.want("aiface", "aiface", 10) {
				// an anonymous interface type with the same method set is a distinct type; it is only used as an argument type
				ai := g.addType(Type{Kind: KAIface, Elem: it})
				g.argTypes = append(g.argTypes, ai)
			}
		}
	}
	g.units = append(g.units, e)
	for _, t := range p.Results {
		g.supply(t, ui)
	}
	// the other form (T vs *T) of a struct with fields may be supplied by a second provider;
	// Struct[...] then has to read from exactly the form it names
	if st := g.c.StructOf(p.Results[0]); st != nil && len(st.Fields) > 0 && st.Pkg == "" && !extForm && g.want("struct-both-forms", "bothforms", 35) {
		other := st.ID
		if g.c.T(p.Results[0]).Kind != KPtr {
			other = g.addType(Type{Kind: KPtr, Elem: st.ID})
		}
		if _, taken := g.supplierUnit[other]; !taken {
			g.pid++
			q := Prov{ID: g.pid, Form: "func", Name: g.name("Alt" + st.Name), Results: []TypeID{other}}
			g.c.Provs = append(g.c.Provs, q)
			g.units = append(g.units, Elem{Kind: "prov", Prov: q.ID, Async: g.drawAsync("async-alt")})
			g.supply(other, len(g.units)-1)
		}
	}
	// struct expansion of the first result
	if st := g.c.StructOf(p.Results[0]); st != nil && len(st.Fields) > 0 && g.want("struct", "expand", 75) {
		// nested expansion: one more field holds a struct that is expanded as well; its source is
		// that field, and the two Struct declarations may be listed in either order
		var inner TypeID
		if st.Pkg == "" && !st.NoHash && g.want("nested-struct-expansion", "nestedexp", 22) {
			is := g.newStruct("", true)
			inner = is
			if rapid.Bool().Draw(g.rt, "nestedptr") {
				inner = g.addType(Type{Kind: KPtr, Elem: is})
			}
			g.c.Types[int(st.ID)].Fields = append(g.c.Types[int(st.ID)].Fields, Field{Name: "FN", Type: inner})
			st = g.c.StructOf(p.Results[0])
		}
		se := Elem{Kind: "struct", Struct: p.Results[0]}
		if st.Pkg == "" && g.want("struct-through-alias", "structalias", 15) {
			// type Haa = *Taa; kessoku.Struct[Haa]()
			se.StructAlias = g.name("H")
			g.c.ExtraAliases = append(g.c.ExtraAliases, [2]string{se.StructAlias, g.c.Expr(p.Results[0], "")})
		}
		if g.want("async-struct", "asyncstruct", 15) {
			se.Async = g.drawAsync("asyncs")
		}
		g.units = append(g.units, se)
		for _, f := range st.Fields {
			g.supply(f.Type, len(g.units)-1)
			for _, f2 := range st.Fields {
				if f2.Type != f.Type {
					g.bundle[f.Type] = append(g.bundle[f.Type], f2.Type)
				}
			}
			g.bundle[f.Type] = append(g.bundle[f.Type], p.Results[0])
		}
		if inner != 0 {
			g.units = append(g.units, Elem{Kind: "struct", Struct: inner})
			for _, f := range g.c.StructOf(inner).Fields {
				g.supply(f.Type, len(g.units)-1)
			}
		}
	}
}

// genGroupsAndInjectors arranges the units into Sets and draws the injectors.
func (g *gen) genGroupsAndInjectors() {
	c := g.c
	nSets := 0
	if len(g.units) >= 2 && g.want("sets", "sets", 40) {
		nSets = rapid.IntRange(1, 3).Draw(g.rt, "nsets")
	}
	g.unitGroup = make([]int, len(g.units))
	for i := range g.units {
		if nSets > 0 {
			g.unitGroup[i] = rapid.IntRange(0, nSets).Draw(g.rt, "group")
		}
		// a struct expansion stays with its producer
		if g.units[i].Kind == "struct" {
			g.unitGroup[i] = g.unitGroup[g.supplierUnit[g.units[i].Struct]]
		}
	}
	parent := make([]int, nSets+1) // set k nested in set parent[k] (0 = top level)
	inlineSet := make([]bool, nSets+1)
	for k := 2; k <= nSets; k++ {
		if rapid.IntRange(0, 99).Draw(g.rt, "nest") < 35 {
			parent[k] = rapid.IntRange(1, k-1).Draw(g.rt, "nestin")
		}
	}
	for k := 1; k <= nSets; k++ {
		if parent[k] == 0 && rapid.IntRange(0, 99).Draw(g.rt, "inline") < 20 {
			inlineSet[k] = true
		}
	}
	setName := make([]string, nSets+1)
	for k := 1; k <= nSets; k++ {
		setName[k] = g.name("set")
	}
	// diamond: a nested Set variable is included a second time, by another Set declared before it
	// or directly by the declaration; its providers are still listed once in the source
	alsoIn := make([]int, nSets+1) // set j is also an element of set alsoIn[j] (-1 = none, 0 = the declaration itself)
	for j := range alsoIn {
		alsoIn[j] = -1
	}
	for j := 2; j <= nSets; j++ {
		if parent[j] != 0 && !inlineSet[parent[j]] && g.want("set-included-twice", "diamond", 35) {
			m := rapid.IntRange(0, j-1).Draw(g.rt, "diamond-in")
			if m != parent[j] && (m == 0 || !inlineSet[m]) {
				alsoIn[j] = m
			}
		}
	}
	// injectors
	nInj := 1
	if g.o.MaxInjectors > 1 && g.want("multi-inj", "multiinj", 40) {
		nInj = rapid.IntRange(2, g.o.MaxInjectors).Draw(g.rt, "ninj")
	}
	nFiles := 1
	if g.o.MaxFiles > 1 && g.want("multi-file", "multifile", 35) {
		nFiles = rapid.IntRange(2, g.o.MaxFiles).Draw(g.rt, "nfiles")
	}
	for f := 0; f < nFiles; f++ {
		c.Files = append(c.Files, File{Name: fmt.Sprintf("inject_%c.go", 'a'+f)})
	}
	// membership per group
	members := make([][]int, nSets+1)
	for i, gr := range g.unitGroup {
		members[gr] = append(members[gr], i)
	}
	perm := func(idx []int, label string) []int {
		out := append([]int{}, idx...)
		// drawn permutation: Fisher-Yates with drawn swaps (identity when all draws are 0)
		for i := 0; i < len(out)-1; i++ {
			j := i + rapid.IntRange(0, len(out)-1-i).Draw(g.rt, label)
			out[i], out[j] = out[j], out[i]
		}
		return out
	}
	var setElems func(k int) []Elem
	setElems = func(k int) []Elem {
		var es []Elem
		for _, ui := range perm(members[k], "setperm") {
			es = append(es, g.units[ui])
		}
		for j := k + 1; j <= nSets; j++ {
			if parent[j] == k || alsoIn[j] == k {
				es = append(es, Elem{Kind: "set", Set: setName[j], Paren: g.want("set-ref-paren", "setparen", 12)})
			}
		}
		return es
	}
	for k := 1; k <= nSets; k++ {
		if inlineSet[k] {
			continue
		}
		f := rapid.IntRange(0, nFiles-1).Draw(g.rt, "setfile")
		if nFiles > 1 && rapid.Bool().Draw(g.rt, "setfile-last") {
			f = nFiles - 1 // Sets often live in another file than the (first) declaration that uses them
		}
		sd := SetDecl{Name: setName[k], Elems: setElems(k)}
		sd.Paren = g.want("set-decl-paren", "setdeclparen", 10)
		if g.want("set-alias-var", "setalias", 12) {
			// var setab = setaa: every reference goes through the second variable
			orig := g.name("set")
			sd.Name = orig
			c.Files[f].Sets = append(c.Files[f].Sets, sd)
			af := rapid.IntRange(0, nFiles-1).Draw(g.rt, "aliasfile")
			c.Files[af].Sets = append(c.Files[af].Sets, SetDecl{Name: setName[k], AliasOf: orig})
			continue
		}
		c.Files[f].Sets = append(c.Files[f].Sets, sd)
	}
	// units reachable through top-level group k (including nested sets)
	var groupUnits func(k int) []int
	groupUnits = func(k int) []int {
		out := append([]int{}, members[k]...)
		for j := k + 1; j <= nSets; j++ {
			if (parent[j] == k || alsoIn[j] == k) && k != 0 {
				out = append(out, groupUnits(j)...)
			}
		}
		return out
	}
	for ii := 0; ii < nInj; ii++ {
		inj := Injector{Name: g.name("Init")}
		if g.o.Adversarial && rapid.IntRange(0, 99).Draw(g.rt, "advinj") < 35 {
			// lower-case injector names that equal (or resemble) generated variable names
			var pool []string
			for i := range g.c.Types {
				if n := g.c.Types[i].Name; n != "" && g.c.Types[i].Pkg == "" {
					pool = append(pool, lowerCamel(n))
				}
			}
			pool = append(pool, advInjNames...)
			k := rapid.IntRange(0, len(pool)-1).Draw(g.rt, "advinjidx")
			for i := 0; i < len(pool); i++ {
				n := pool[(k+i)%len(pool)]
				if !g.used[n] && !goReserved[n] && !g.importNameTaken(n) {
					g.used[n] = true
					inj.Name = n
					g.c.AddFeature("adv-injector-name")
					break
				}
			}
		}
		included := map[int]bool{}
		var elems []Elem
		dropSome := ii > 0 && g.want("unneeded", "subset", 60)
		// direct units
		direct := perm(members[0], "dirperm")
		dropped := map[int]bool{}
		for _, ui := range direct {
			if dropSome && g.units[ui].Kind != "struct" && rapid.IntRange(0, 99).Draw(g.rt, "drop") < 25 {
				dropped[ui] = true
			}
		}
		// an expansion goes with its source: dropping a producer drops its Struct, and with it
		// the nested Struct that reads one of its fields
		for changed := true; changed; {
			changed = false
			for _, ui := range direct {
				if !dropped[ui] && g.units[ui].Kind == "struct" && dropped[g.supplierUnit[g.units[ui].Struct]] {
					dropped[ui] = true
					changed = true
				}
			}
		}
		for _, ui := range direct {
			if dropped[ui] {
				continue
			}
			included[ui] = true
			el := g.units[ui]
			if ii > 0 && el.Kind == "prov" && g.allow("async") && g.want("rewrap", "rewrap", 30) {
				// the same provider is wrapped differently in different declarations of one run
				el.Async = !el.Async
				if el.Async && len(el.Bind) > 0 {
					el.AsyncInner = rapid.Bool().Draw(g.rt, "rewrap-inner")
				}
			}
			if ii == 0 && el.Kind != "set" && el.Kind != "inline" {
				if g.want("elem-paren", "elemparen", 8) {
					el.Paren = true
				} else if el.Kind != "value" && !(el.Kind == "prov" && c.ProvByID(el.Prov).Form == "lit") && g.want("elem-hoisted-var", "elemhoist", 8) {
					el.Hoist = g.name("decl")
				}
			}
			elems = append(elems, el)
		}
		for k := 1; k <= nSets; k++ {
			if parent[k] != 0 {
				continue
			}
			if dropSome && rapid.IntRange(0, 99).Draw(g.rt, "dropset") < 25 {
				continue
			}
			for _, ui := range groupUnits(k) {
				included[ui] = true
			}
			if inlineSet[k] {
				elems = append(elems, Elem{Kind: "inline", Inline: setElems(k)})
			} else {
				elems = append(elems, Elem{Kind: "set", Set: setName[k], Paren: g.want("set-ref-paren", "setparen", 12)})
			}
		}
		for j := 2; j <= nSets; j++ {
			if alsoIn[j] == 0 {
				for _, ui := range groupUnits(j) {
					included[ui] = true
				}
				elems = append(elems, Elem{Kind: "set", Set: setName[j]})
			}
		}
		// interleave sets among direct elems
		order := make([]int, len(elems))
		for i := range order {
			order[i] = i
		}
		order = perm(order, "elemperm")
		shuffled := make([]Elem, len(elems))
		for i, j := range order {
			shuffled[i] = elems[j]
		}
		inj.Elems = shuffled
		switch rapid.IntRange(0, 11).Draw(g.rt, "injform") {
		case 8:
			inj.Form = "typed"
		case 9:
			inj.Form = "named"
		case 10:
			inj.Form = "block"
		case 11:
			inj.Form = "multi"
		}
		if inj.Form != "" {
			if g.allow("inject-spelling") {
				c.AddFeature("inject-spelling")
				c.AddFeature("inject-spelling:" + inj.Form)
			} else {
				inj.Form = ""
			}
		}
		// requested type: among types supplied by included units, biased to the latest
		var cands []TypeID
		for _, t := range g.supplied {
			if included[g.supplierUnit[t]] && t != CtxType {
				cands = append(cands, t)
			}
		}
		if len(cands) == 0 || g.want("want-unsupplied", "wantarg", 4) {
			if len(cands) == 0 && !g.allow("want-unsupplied") {
				// cannot happen for the first injector; fall back to including everything
				continue
			}
			inj.Want = g.freshArgType()
			c.AddFeature("want-unsupplied")
		} else {
			j := 0
			if rapid.IntRange(0, 99).Draw(g.rt, "wantlast") >= 70 {
				j = rapid.IntRange(0, len(cands)-1).Draw(g.rt, "want")
			}
			inj.Want = cands[len(cands)-1-j]
			if g.preferWant != 0 && rapid.Bool().Draw(g.rt, "want-preferred") {
				for _, t := range cands {
					if t == g.preferWant {
						inj.Want = t
					}
				}
			}
		}
		f := 0
		if nFiles > 1 {
			f = rapid.IntRange(0, nFiles-1).Draw(g.rt, "injfile")
			if ii < nFiles {
				f = ii // every file gets at least one injector
			}
		}
		c.Files[f].Injectors = append(c.Files[f].Injectors, inj)
	}
	for fi := range c.Files {
		if len(c.Files[fi].Sets) >= 2 && g.want("multi-var-sets", "multivar", 40) {
			c.Files[fi].MultiVar = true
		}
	}
	// drop files without injectors and without sets
	var files []File
	for _, f := range c.Files {
		if len(f.Injectors) > 0 || len(f.Sets) > 0 {
			files = append(files, f)
		}
	}
	c.Files = files
}

func lowerCamel(s string) string {
	i := 0
	for i < len(s) && s[i] >= 'A' && s[i] <= 'Z' {
		i++
	}
	b := []byte(s)
	for j := 0; j < i; j++ {
		b[j] += 'a' - 'A'
	}
	return string(b)
}

var goReserved = map[string]bool{}

func init() {
	for _, w := range []string{"break", "default", "func", "interface", "select", "case", "defer", "go", "map", "struct", "chan", "else", "goto", "package", "switch",
		"const", "fallthrough", "if", "range", "type", "continue", "for", "import", "return", "var",
		"any", "bool", "byte", "comparable", "complex64", "complex128", "error", "float32", "float64", "int", "int8", "int16", "int32", "int64", "rune", "string",
		"uint", "uint8", "uint16", "uint32", "uint64", "uintptr", "true", "false", "iota", "nil", "append", "cap", "clear", "close", "complex", "copy", "delete", "imag", "len",
		"make", "max", "min", "new", "panic", "print", "println", "real", "recover", "init", "main", "_"} {
		goReserved[w] = true
	}
}
