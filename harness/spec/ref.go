package spec

import (
	"fmt"
	"sort"
)

// Mix is the hash combiner shared with the inner runtime (vrt.Mix): FNV-1a over the
// little-endian words, folded to 31 bits, never 0.
func Mix(vals ...uint32) uint32 {
	h := uint32(2166136261)
	for _, v := range vals {
		for i := 0; i < 4; i++ {
			h ^= (v >> (8 * i)) & 0xff
			h *= 16777619
		}
	}
	h = (h ^ (h >> 31)) & 0x7fffffff
	if h == 0 {
		h = 1
	}
	return h
}

// Resolved is the reference model of one Inject declaration.
type Resolved struct {
	Case     *Case
	Inj      *Injector
	Units    []*Unit            // flattened, plus field accessors appended
	Supplier map[TypeID]*Supply // by type
	Dups     []TypeID           // types with more than one supplier
	Orphans  []TypeID           // Struct[T] without supplier of T
	Needed   []*Unit            // transitive cone of Want, topological order (producers first)
	NeededSet map[*Unit]bool
	Args     []TypeID // unsupplied required types (sorted by id); may include CtxType
	WantIsArg bool
	HasAsync bool // a needed unit is Async
	HasErr   bool // a needed provider is fallible
	Cyclic   bool
}

type Supply struct {
	Unit *Unit
	Res  int // result index
}

// Requires lists the types a unit needs, in parameter order.
func (c *Case) Requires(u *Unit) []TypeID {
	switch u.Kind {
	case "prov":
		return u.Prov.Params
	case "field":
		return []TypeID{u.Type}
	}
	return nil
}

// Resolve computes the reference resolution of an injector.
func (c *Case) Resolve(inj *Injector) *Resolved {
	r := &Resolved{Case: c, Inj: inj, Supplier: map[TypeID]*Supply{}, NeededSet: map[*Unit]bool{}}
	r.Units = c.Flatten(inj.Elems)
	dup := map[TypeID]bool{}
	add := func(t TypeID, u *Unit, res int) {
		if ex, ok := r.Supplier[t]; ok {
			if ex.Unit != u && !dup[t] {
				dup[t] = true
				r.Dups = append(r.Dups, t)
			}
			return
		}
		r.Supplier[t] = &Supply{u, res}
	}
	var structs []*Unit
	for _, u := range r.Units {
		switch u.Kind {
		case "prov":
			for i, t := range u.Prov.Results {
				add(t, u, i)
			}
			for _, b := range u.Bind {
				for i, t := range u.Prov.Results {
					if c.Implements(t, b) {
						add(b, u, i)
						break
					}
				}
			}
		case "value":
			add(u.Type, u, 0)
		case "struct":
			structs = append(structs, u)
		}
	}
	// an expansion may find its source among the fields of another expansion, whatever the order
	// they are listed in: expand whatever has a source until nothing changes
	pending := structs
	for len(pending) > 0 {
		var next, ready []*Unit
		for _, su := range pending {
			if _, ok := r.Supplier[su.Type]; ok {
				ready = append(ready, su)
			} else {
				next = append(next, su)
			}
		}
		if len(ready) == 0 {
			for _, su := range next {
				r.Orphans = append(r.Orphans, su.Type)
			}
			break
		}
		pending = next
		r.expand(ready, add)
	}
	return r.finish(inj)
}

func (r *Resolved) expand(structs []*Unit, add func(t TypeID, u *Unit, res int)) {
	c := r.Case
	for _, su := range structs {
		st := c.StructOf(su.Type)
		if st == nil {
			continue
		}
		// kessoku sorts fields by name
		idx := make([]int, len(st.Fields))
		for i := range idx {
			idx[i] = i
		}
		sort.Slice(idx, func(a, b int) bool { return st.Fields[idx[a]].Name < st.Fields[idx[b]].Name })
		for _, i := range idx {
			f := &st.Fields[i]
			fu := &Unit{Kind: "field", Type: su.Type, Field: f, FieldIdx: i, Idx: len(r.Units)}
			r.Units = append(r.Units, fu)
			add(f.Type, fu, 0)
		}
	}
}

func (r *Resolved) finish(inj *Injector) *Resolved {
	c := r.Case
	// needed cone
	if _, ok := r.Supplier[inj.Want]; !ok {
		r.WantIsArg = true
		r.Args = []TypeID{inj.Want}
		return r
	}
	args := map[TypeID]bool{}
	state := map[*Unit]int{}
	var visit func(u *Unit)
	visit = func(u *Unit) {
		switch state[u] {
		case 1:
			r.Cyclic = true
			return
		case 2:
			return
		}
		state[u] = 1
		for _, t := range c.Requires(u) {
			if s, ok := r.Supplier[t]; ok {
				visit(s.Unit)
			} else {
				args[t] = true
			}
		}
		state[u] = 2
		r.Needed = append(r.Needed, u)
		r.NeededSet[u] = true
		if u.Async {
			r.HasAsync = true
		}
		if u.Kind == "prov" && u.Prov.Err {
			r.HasErr = true
		}
	}
	visit(r.Supplier[inj.Want].Unit)
	for t := range args {
		r.Args = append(r.Args, t)
	}
	sort.Slice(r.Args, func(i, j int) bool { return r.Args[i] < r.Args[j] })
	return r
}

// Valid reports whether the declaration is acceptable according to the property C09.
func (r *Resolved) Valid() bool { return !r.Cyclic && len(r.Dups) == 0 && len(r.Orphans) == 0 }

// Producers returns the needed units that directly produce inputs of u.
func (r *Resolved) Producers(u *Unit) []*Unit {
	var out []*Unit
	for _, t := range r.Case.Requires(u) {
		if s, ok := r.Supplier[t]; ok {
			out = append(out, s.Unit)
		}
	}
	return out
}

// Call is one expected provider invocation.
type Call struct {
	PID  int
	Args []uint32
}

// EvalResult is the outcome of the sequential reference evaluation.
type EvalResult struct {
	Value   uint32          // hash observable through the requested type
	Calls   []Call          // invoked logged units (providers and values) in evaluation order
	Failed  []int           // providers that returned an error
	Skipped map[int]bool    // logged units not invoked because a producer failed
	Ran     map[*Unit]bool  // all units evaluated
	Val     map[*Unit][]uint32 // produced raw hashes per result
	Err     bool
}

// Eval evaluates the needed cone sequentially. args maps unsupplied types to hashes,
// fail is the set of provider ids that return an error.
func (r *Resolved) Eval(args map[TypeID]uint32, fail map[int]bool) *EvalResult {
	c := r.Case
	res := &EvalResult{Skipped: map[int]bool{}, Ran: map[*Unit]bool{}, Val: map[*Unit][]uint32{}}
	if r.WantIsArg {
		res.Value = c.Squash(r.Inj.Want, args[r.Inj.Want])
		return res
	}
	dead := map[*Unit]bool{}
	get := func(t TypeID) (uint32, bool) {
		if s, ok := r.Supplier[t]; ok {
			if dead[s.Unit] {
				return 0, false
			}
			return c.Squash(t, res.Val[s.Unit][s.Res]), true
		}
		return c.Squash(t, args[t]), true
	}
	for _, u := range r.Needed {
		in := []uint32{}
		ok := true
		for _, t := range c.Requires(u) {
			h, live := get(t)
			if !live {
				ok = false
				break
			}
			in = append(in, h)
		}
		if !ok {
			dead[u] = true
			if u.PID() >= 0 {
				res.Skipped[u.PID()] = true
			}
			continue
		}
		res.Ran[u] = true
		switch u.Kind {
		case "prov":
			res.Calls = append(res.Calls, Call{u.Prov.ID, in})
			if fail[u.Prov.ID] && u.Prov.Err {
				dead[u] = true
				res.Failed = append(res.Failed, u.Prov.ID)
				res.Err = true
				continue
			}
			base := Mix(append([]uint32{uint32(u.Prov.ID)}, in...)...)
			out := make([]uint32, len(u.Prov.Results))
			for i := range out {
				out[i] = Mix(base, uint32(i))
			}
			res.Val[u] = out
		case "value":
			if u.PID() >= 0 {
				res.Calls = append(res.Calls, Call{u.PID(), nil})
			}
			res.Val[u] = []uint32{u.H}
		case "field":
			// struct value hash -> field value hash (see mk_ helpers)
			res.Val[u] = []uint32{Mix(in[0], uint32(u.FieldIdx+1))}
		}
	}
	if s := r.Supplier[r.Inj.Want]; !dead[s.Unit] {
		res.Value = c.Squash(r.Inj.Want, res.Val[s.Unit][s.Res])
	}
	return res
}

// Downstream returns the logged unit ids that depend transitively on provider pid.
func (r *Resolved) Downstream(pid int) map[int]bool {
	out := map[int]bool{}
	tainted := map[*Unit]bool{}
	for _, u := range r.Needed {
		if u.Kind == "prov" && u.Prov.ID == pid {
			tainted[u] = true
			continue
		}
		for _, p := range r.Producers(u) {
			if tainted[p] {
				tainted[u] = true
				if u.PID() >= 0 {
					out[u.PID()] = true
				}
				break
			}
		}
	}
	return out
}

// Signature is the expected shape of the generated function (C10).
type Signature struct {
	Name     string
	Params   []TypeID // multiset, CtxType included when required
	CtxFirst bool     // ctx must be the first parameter
	HasCtx   bool
	Result   TypeID
	Err      bool
}

func (r *Resolved) Signature() Signature {
	s := Signature{Name: r.Inj.Name, Result: r.Inj.Want, Err: r.HasErr}
	hasCtxArg := false
	for _, a := range r.Args {
		if a == CtxType {
			hasCtxArg = true
			continue
		}
		s.Params = append(s.Params, a)
	}
	s.HasCtx = hasCtxArg || r.HasAsync
	s.CtxFirst = r.HasAsync
	if s.HasCtx {
		s.Params = append([]TypeID{CtxType}, s.Params...)
	}
	return s
}

func (s Signature) String(c *Case) string {
	ps := ""
	for i, p := range s.Params {
		if i > 0 {
			ps += ", "
		}
		ps += c.Describe(p)
	}
	res := c.Describe(s.Result)
	if s.Err {
		res = "(" + res + ", error)"
	}
	return fmt.Sprintf("func %s(%s) %s", s.Name, ps, res)
}

// CyclicTypes returns the types supplied by units that lie on a dependency cycle reachable
// from the requested type (strongly connected components with more than one unit, or with a
// self edge).
func (r *Resolved) CyclicTypes() []TypeID {
	c := r.Case
	start, ok := r.Supplier[r.Inj.Want]
	if !ok {
		return nil
	}
	// reachable units
	adj := map[*Unit][]*Unit{}
	var order []*Unit
	seen := map[*Unit]bool{}
	var reach func(u *Unit)
	reach = func(u *Unit) {
		if seen[u] {
			return
		}
		seen[u] = true
		order = append(order, u)
		for _, t := range c.Requires(u) {
			if s, ok := r.Supplier[t]; ok {
				adj[u] = append(adj[u], s.Unit)
				reach(s.Unit)
			}
		}
	}
	reach(start.Unit)
	// Tarjan
	index := map[*Unit]int{}
	low := map[*Unit]int{}
	on := map[*Unit]bool{}
	var stack []*Unit
	n := 0
	cyclic := map[*Unit]bool{}
	var strong func(u *Unit)
	strong = func(u *Unit) {
		index[u], low[u] = n, n
		n++
		stack = append(stack, u)
		on[u] = true
		for _, w := range adj[u] {
			if _, ok := index[w]; !ok {
				strong(w)
				if low[w] < low[u] {
					low[u] = low[w]
				}
			} else if on[w] && index[w] < low[u] {
				low[u] = index[w]
			}
		}
		if low[u] == index[u] {
			var comp []*Unit
			for {
				w := stack[len(stack)-1]
				stack = stack[:len(stack)-1]
				on[w] = false
				comp = append(comp, w)
				if w == u {
					break
				}
			}
			self := false
			for _, w := range adj[u] {
				if w == u {
					self = true
				}
			}
			if len(comp) > 1 || self {
				for _, w := range comp {
					cyclic[w] = true
				}
			}
		}
	}
	for _, u := range order {
		if _, ok := index[u]; !ok {
			strong(u)
		}
	}
	var out []TypeID
	for t, s := range r.Supplier {
		if cyclic[s.Unit] {
			out = append(out, t)
		}
	}
	sort.Slice(out, func(i, j int) bool { return out[i] < out[j] })
	return out
}
