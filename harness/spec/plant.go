package spec

import (
	"pgregory.net/rapid"
)

// Plant describes one defect planted into an otherwise valid case (C09).
type Plant struct {
	Kind     string   // cycle | dup | orphan
	Via      string   // plain | self | bind | field | second-result | value | prov
	Injector string
	Types    []TypeID // types that the diagnostic may name (supplied on the SCC / duplicated / orphan struct)
	CycleLen int
	Position string // adjacent | deep
}

func (c *Case) injectors() []*Injector {
	var out []*Injector
	for fi := range c.Files {
		for ii := range c.Files[fi].Injectors {
			out = append(out, &c.Files[fi].Injectors[ii])
		}
	}
	return out
}

func (c *Case) newID() TypeID { return TypeID(len(c.Types)) }

func (c *Case) freshName(prefix string) string {
	used := map[string]bool{}
	for i := range c.Types {
		used[c.Types[i].Name] = true
	}
	for i := range c.Provs {
		used[c.Provs[i].Name] = true
	}
	for n := 0; ; n++ {
		s := prefix + letters(n)
		if !used[s] {
			return s
		}
	}
}

func (c *Case) nextPID() int {
	m := 0
	for i := range c.Provs {
		if c.Provs[i].ID > m {
			m = c.Provs[i].ID
		}
	}
	return m + 1
}

// suppliedBy lists the types a unit supplies in resolution r.
func suppliedBy(r *Resolved, u *Unit) []TypeID {
	var out []TypeID
	for t, s := range r.Supplier {
		if s.Unit == u {
			out = append(out, t)
		}
	}
	// deterministic order
	for i := 0; i < len(out); i++ {
		for j := i + 1; j < len(out); j++ {
			if out[j] < out[i] {
				out[i], out[j] = out[j], out[i]
			}
		}
	}
	return out
}

// dependsOn computes, over the needed cone, the set of units that transitively depend on p (including p).
func dependsOn(r *Resolved, p *Unit) map[*Unit]bool {
	d := map[*Unit]bool{p: true}
	for _, u := range r.Needed { // topological: producers first
		if d[u] {
			continue
		}
		for _, q := range r.Producers(u) {
			if d[q] {
				d[u] = true
				break
			}
		}
	}
	return d
}

// ApplyPlant mutates c by planting exactly one defect of the drawn kind. It returns nil when
// the drawn kind cannot be planted in this case.
func ApplyPlant(rt *rapid.T, c *Case) *Plant {
	injs := c.injectors()
	if len(injs) == 0 {
		return nil
	}
	inj := injs[rapid.IntRange(0, len(injs)-1).Draw(rt, "plant-inj")]
	r := c.Resolve(inj)
	if !r.Valid() || r.WantIsArg {
		return nil
	}
	kind := rapid.SampledFrom([]string{"cycle", "cycle", "dup", "dup", "orphan"}).Draw(rt, "plant-kind")
	pl := &Plant{Kind: kind, Injector: inj.Name}
	pos := func() int { return rapid.IntRange(0, len(inj.Elems)).Draw(rt, "plant-pos") }
	insert := func(e Elem) {
		i := pos()
		inj.Elems = append(inj.Elems[:i], append([]Elem{e}, inj.Elems[i:]...)...)
	}
	switch kind {
	case "cycle":
		var provs []*Unit
		for _, u := range r.Needed {
			if u.Kind == "prov" {
				provs = append(provs, u)
			}
		}
		if len(provs) == 0 {
			return nil
		}
		p := provs[rapid.IntRange(0, len(provs)-1).Draw(rt, "plant-p")]
		dep := dependsOn(r, p)
		type cand struct {
			q *Unit
			x TypeID
		}
		var cands []cand
		for _, u := range r.Needed {
			if !dep[u] {
				continue
			}
			for _, x := range suppliedBy(r, u) {
				cands = append(cands, cand{u, x})
			}
		}
		if len(cands) == 0 {
			return nil
		}
		cd := cands[rapid.IntRange(0, len(cands)-1).Draw(rt, "plant-q")]
		// via classification
		switch {
		case cd.q == p:
			pl.Via = "self"
		case cd.q.Kind == "field":
			pl.Via = "field"
		case cd.x != CtxType && c.T(cd.x).Kind == KIface:
			pl.Via = "bind"
		case cd.q.Kind == "prov" && len(cd.q.Prov.Results) > 1 && cd.q.Prov.Results[0] != cd.x:
			pl.Via = "second-result"
		default:
			pl.Via = "plain"
		}
		if p.Prov.Form == "ext" && !extSafe(c, cd.x) {
			return nil // ext packages cannot mention user-package types
		}
		at := rapid.IntRange(0, len(p.Prov.Params)).Draw(rt, "plant-param")
		if p.Prov.Variadic && at == len(p.Prov.Params) {
			at = 0
		}
		pp := c.ProvByID(p.Prov.ID)
		pp.Params = append(pp.Params[:at], append([]TypeID{cd.x}, pp.Params[at:]...)...)
		// SCC: units u with p ->* u (dep) and u ->* q... every unit on a path from p to q
		r2 := c.Resolve(inj)
		if !r2.Cyclic {
			return nil
		}
		// units on the cycle: dep(p) ∩ ancestors(q) computed on the OLD resolution
		anc := map[*Unit]bool{cd.q: true}
		for i := len(r.Needed) - 1; i >= 0; i-- {
			u := r.Needed[i]
			if anc[u] {
				for _, pr := range r.Producers(u) {
					anc[pr] = true
				}
			}
		}
		n := 0
		for _, u := range r.Needed {
			if dep[u] && anc[u] {
				n++
				pl.Types = append(pl.Types, suppliedBy(r, u)...)
			}
		}
		pl.CycleLen = n
		if s := r.Supplier[inj.Want]; s != nil && (s.Unit == p || s.Unit == cd.q) {
			pl.Position = "adjacent"
		} else {
			pl.Position = "deep"
		}
		return pl
	case "dup":
		var types []TypeID
		for _, u := range r.Needed {
			for _, t := range suppliedBy(r, u) {
				if t != CtxType {
					types = append(types, t)
				}
			}
		}
		if len(types) == 0 {
			return nil
		}
		x := types[rapid.IntRange(0, len(types)-1).Draw(rt, "plant-x")]
		via := rapid.SampledFrom([]string{"prov", "value", "field", "bind", "twin-fields"}).Draw(rt, "plant-via")
		if via == "twin-fields" {
			// a struct expansion whose struct has two exported fields of the same type: the
			// two field reads supply the same type (needs a struct producer in the cone)
			for _, u := range r.Needed {
				if u.Kind != "field" {
					continue
				}
				st := c.StructOf(u.Type)
				if st == nil || st.Pkg != "" {
					continue
				}
				idx := int(st.ID)
				c.Types[idx].Fields = append(c.Types[idx].Fields, Field{Name: "FZ", Type: u.Field.Type})
				pl.Via = "twin-fields"
				pl.Types = []TypeID{u.Field.Type}
				pl.Position = "deep"
				if r2 := c.Resolve(inj); len(r2.Dups) == 0 {
					return nil
				}
				return pl
			}
			via = "prov"
		}
		if via == "bind" && c.T(x).Kind != KIface {
			via = "prov"
		}
		if c.T(x).Kind == KIface && via != "bind" && via != "field" {
			via = "bind"
		}
		if !extSafeUser(c, x) {
			return nil
		}
		pl.Via = via
		pl.Types = []TypeID{x}
		switch via {
		case "prov":
			p := Prov{ID: c.nextPID(), Name: c.freshName("Dup"), Form: "func", Results: []TypeID{x}}
			c.Provs = append(c.Provs, p)
			insert(Elem{Kind: "prov", Prov: p.ID})
		case "value":
			insert(Elem{Kind: "value", Value: x, VID: 9000, H: 77})
		case "field":
			s := c.newID()
			c.Types = append(c.Types, Type{ID: s, Kind: KStruct, Name: c.freshName("D"), Fields: []Field{{Name: "FA", Type: x}}})
			p := Prov{ID: c.nextPID(), Name: c.freshName("Dup"), Form: "func", Results: []TypeID{s}}
			c.Provs = append(c.Provs, p)
			insert(Elem{Kind: "prov", Prov: p.ID})
			insert(Elem{Kind: "struct", Struct: s})
		case "bind":
			s := c.newID()
			c.Types = append(c.Types, Type{ID: s, Kind: KStruct, Name: c.freshName("D"), AlsoImpl: []TypeID{x}})
			p := Prov{ID: c.nextPID(), Name: c.freshName("Dup"), Form: "func", Results: []TypeID{s}}
			c.Provs = append(c.Provs, p)
			insert(Elem{Kind: "prov", Prov: p.ID, Bind: []TypeID{x}})
		}
		if r2 := c.Resolve(inj); len(r2.Dups) == 0 {
			return nil
		}
		if s := r.Supplier[inj.Want]; s != nil && r.Supplier[x] != nil && s.Unit == r.Supplier[x].Unit {
			pl.Position = "adjacent"
		} else {
			pl.Position = "deep"
		}
		return pl
	case "orphan":
		s := c.newID()
		f := c.newID() + 1
		c.Types = append(c.Types, Type{ID: s, Kind: KStruct, Name: c.freshName("O"), Fields: []Field{{Name: "FA", Type: f}}})
		c.Types = append(c.Types, Type{ID: f, Kind: KNBasic, Name: c.freshName("N"), Basic: "int"})
		st := s
		if rapid.Bool().Draw(rt, "plant-ptr") {
			st = c.newID()
			c.Types = append(c.Types, Type{ID: st, Kind: KPtr, Elem: s})
			pl.Via = "ptr"
		} else {
			pl.Via = "value"
		}
		insert(Elem{Kind: "struct", Struct: st})
		pl.Types = []TypeID{st}
		if rapid.Bool().Draw(rt, "plant-orphan-twice") {
			// a second expansion without a source in the same declaration
			s2 := c.newID()
			f2 := c.newID() + 1
			c.Types = append(c.Types, Type{ID: s2, Kind: KStruct, Name: c.freshName("O"), Fields: []Field{{Name: "FA", Type: f2}}})
			c.Types = append(c.Types, Type{ID: f2, Kind: KNBasic, Name: c.freshName("N"), Basic: "int"})
			insert(Elem{Kind: "struct", Struct: s2})
			pl.Types = append(pl.Types, s2)
			pl.Via += "-twice"
		}
		pl.Position = "deep"
		if r2 := c.Resolve(inj); len(r2.Orphans) == 0 {
			return nil
		}
		return pl
	}
	return nil
}

// extSafe reports whether the type can be mentioned inside an ext package.
func extSafe(c *Case, id TypeID) bool {
	if id == CtxType {
		return false
	}
	t := c.T(id)
	switch t.Kind {
	case KBasic:
		return true
	case KStruct, KNBasic, KIface:
		return t.Pkg != ""
	case KPtr:
		return extSafe(c, t.Elem)
	}
	return false
}

// extSafeUser: every type can be mentioned in the user package.
func extSafeUser(c *Case, id TypeID) bool { return true }
