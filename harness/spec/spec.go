// Package spec is the declaration model shared by the generator-based properties:
// a case is a scratch Go module with types, instrumented providers and
// kessoku.Inject declarations. Everything is plain data (JSON) so a case can be replayed.
package spec

import (
	"fmt"
	"sort"
	"strings"
)

type TypeID int

const CtxType TypeID = -1 // context.Context

// Type kinds.
const (
	KStruct  = "struct"  // named struct (app or ext package), unexported hash field + exported fields
	KPtr     = "ptr"     // *Elem
	KNBasic  = "nbasic"  // named basic: type Port int
	KBasic   = "basic"   // string, int, ...
	KSlice   = "slice"   // []Elem
	KArray   = "array"   // [Len]Elem
	KMap     = "map"     // map[Key]Elem
	KChan    = "chan"    // chan Elem / <-chan Elem
	KFunc    = "func"    // func(Key?) Elem  (Variadic: func(Key, ...Key2) Elem)
	KAStruct = "astruct" // struct{ A Elem }
	KIface   = "iface"   // named interface with one marker method
	KAIface  = "aiface"  // anonymous interface{ M() uint32 } (same method as iface Elem)
	KGeneric = "generic" // Box[Elem]
)

type Field struct {
	Name string
	Type TypeID
	Emb  bool `json:",omitempty"` // embedded field
	Tag  string `json:",omitempty"` // struct tag (without back quotes), e.g. wire:"-"
}

type Type struct {
	ID       TypeID
	Kind     string
	Name     string  `json:",omitempty"`
	Pkg      string  `json:",omitempty"` // "" = user package, otherwise key of Case.Exts
	Elem     TypeID  `json:",omitempty"`
	Key      TypeID  `json:",omitempty"` // map key / func parameter (0 = none for func)
	HasKey   bool    `json:",omitempty"`
	Basic    string  `json:",omitempty"`
	AltSpell string  `json:",omitempty"` // basic: spelling used in parameter lists (identical type)
	GenAlias bool `json:",omitempty"` // generic instance of the user package spelled through the generic alias BoxOf[T] = Box[T]
	AliasSpell string `json:",omitempty"` // named local type: the user files spell it through this alias (type <AliasSpell> = <Name>)
	Len      int     `json:",omitempty"`
	RecvOnly bool    `json:",omitempty"`
	Variadic bool    `json:",omitempty"`
	Fields   []Field `json:",omitempty"` // struct: exported fields
	PtrRecv  bool    `json:",omitempty"` // iface methods of this struct use pointer receivers
	ImplError bool   `json:",omitempty"` // struct: has a method Error() string (pointer receiver)
	NoHash   bool    `json:",omitempty"` // struct without hidden hash field: its hash is derived from its fields (wire.Struct targets)
	Impl     TypeID  `json:",omitempty"` // iface: a type implementing it (struct or ptr)
	AlsoImpl []TypeID `json:",omitempty"` // struct: further interfaces it implements (value receiver)
	Method   string  `json:",omitempty"` // iface: marker method name
}

// Ext describes a second package of the scratch module.
type Ext struct {
	Key   string // internal key, e.g. "ext"
	Path  string // import path suffix under the module, e.g. "extlib" or "a/util"
	Name  string // package name
	Alias string `json:",omitempty"` // import alias used in the user files ("" = none)
	Vars  []ExtVar `json:",omitempty"` // exported package-level variables (wire.Value operands)
	Hidden bool    `json:",omitempty"` // no file of the user package imports it: its types are reached through the signatures of another external package only
}

type ExtVar struct {
	Name   string
	Type   TypeID
	H      uint32
	Holder bool `json:",omitempty"` // the variable is a struct with one field V of the type: the operand is pkg.Name.V
}

type Prov struct {
	ID       int
	Name     string
	Form     string   // func | lit | ext
	Pkg      string   `json:",omitempty"` // for Form ext: key of Exts
	Params   []TypeID // CtxType allowed
	Results  []TypeID
	Err      bool `json:",omitempty"`
	FuncVar  bool `json:",omitempty"` // Form func: declared as a package-level function variable, var NewX = func(...) ...
	FuncVarType string `json:",omitempty"` // FuncVar: "" | named (type NewXFunc func(...); var NewX NewXFunc = ...) | alias (type NewXFunc = func(...))
	ErrAlias bool `json:",omitempty"` // the error result is spelled Failure (type Failure = error)
	Param0Name string `json:",omitempty"` // name of the first parameter (default a0)
	CtxAlias bool `json:",omitempty"` // context.Context parameters are spelled Ctx (type Ctx = context.Context)
	Variadic bool `json:",omitempty"` // last parameter is ...Elem(of slice type in Params)
	Method   bool `json:",omitempty"` // Form ext: referenced as a method value of a package-level variable (pkg.Factory.Name)
}

// Elem is one argument of Inject / Set.
type Elem struct {
	Kind       string   // prov | struct | value | set | inline
	Prov       int      `json:",omitempty"`
	Async      bool     `json:",omitempty"`
	Bind       []TypeID `json:",omitempty"`
	AsyncInner bool     `json:",omitempty"` // Bind(Async(x)) instead of Async(Bind(x))
	Struct     TypeID   `json:",omitempty"`
	Value      TypeID   `json:",omitempty"`
	VID        int      `json:",omitempty"`
	H          uint32   `json:",omitempty"`
	Literal    bool     `json:",omitempty"` // value: written as an untyped constant literal (not logged)
	Set        string   `json:",omitempty"`
	Paren      bool     `json:",omitempty"` // the element is written in parentheses: (setaa), (kessoku.Provide(f))
	StructAlias string  `json:",omitempty"` // struct: the expanded type is spelled through this alias (declared in the types file)
	Hoist      string   `json:",omitempty"` // non-set element kept in a package-level variable of this name and referenced through it
	Inline     []Elem   `json:",omitempty"`
}

type SetDecl struct {
	Name    string
	Elems   []Elem
	Paren   bool   `json:",omitempty"` // var s = (kessoku.Set(...))
	AliasOf string `json:",omitempty"` // var s = <other set variable> (no elements of its own)
}

type Injector struct {
	Name  string
	Want  TypeID
	Elems []Elem
	Form  string `json:",omitempty"` // spelling of the declaration: "" (var _ =) | typed | named | block | multi (shares one var statement with the next declaration)
}

type File struct {
	Name      string
	MultiVar  bool `json:",omitempty"` // the file's Sets are declared in ONE var statement: var a, b = Set(..), Set(..)
	Sets      []SetDecl
	Injectors []Injector
}

type Case struct {
	Types    []Type
	Exts     []Ext `json:",omitempty"`
	Provs    []Prov
	Files    []File
	PkgNames []string `json:",omitempty"` // extra package-level identifiers declared in the user package
	OtherFilesPlain bool `json:",omitempty"` // types/providers files sort before the declaration files and import the aliased external packages under their plain names
	NamesGenerated bool `json:",omitempty"` // names.go carries another tool's "Code generated ... DO NOT EDIT." header
	ExtraAliases [][2]string `json:",omitempty"` // type alias declarations of the user package: {alias, type expression}
	PkgFuncs []string `json:",omitempty"` // extra package-level functions (func X() int) that no declaration refers to
	Features []string `json:",omitempty"`
	KAlias   string   `json:",omitempty"` // alias for the kessoku import
}

func (c *Case) T(id TypeID) *Type { return &c.Types[int(id)] }

func (c *Case) Ext(key string) *Ext {
	for i := range c.Exts {
		if c.Exts[i].Key == key {
			return &c.Exts[i]
		}
	}
	return nil
}

func (c *Case) ProvByID(id int) *Prov {
	for i := range c.Provs {
		if c.Provs[i].ID == id {
			return &c.Provs[i]
		}
	}
	return nil
}

func (c *Case) HasFeature(f string) bool {
	for _, x := range c.Features {
		if x == f {
			return true
		}
	}
	return false
}

func (c *Case) AddFeature(f string) {
	if !c.HasFeature(f) {
		c.Features = append(c.Features, f)
		sort.Strings(c.Features)
	}
}

// Squash maps a produced hash to the hash observable through a value of the type
// (types narrower than 31 bits lose information).
func (c *Case) Squash(id TypeID, h uint32) uint32 {
	if id == CtxType {
		return h
	}
	t := c.T(id)
	switch t.Kind {
	case KBasic, KNBasic:
		switch t.Basic {
		case "bool":
			return h & 1
		case "byte", "uint8", "int8":
			return h & 0x7f
		case "int16", "uint16":
			return h & 0x7fff
		}
		return h
	case KPtr, KSlice, KArray, KMap, KChan, KFunc, KAStruct:
		return c.Squash(t.Elem, h)
	case KIface:
		return c.Squash(t.Impl, h)
	case KAIface:
		return c.Squash(t.Elem, h)
	}
	return h
}

// Expr renders the Go type expression as written in the user package (from = "" ) or
// in package `from`.
func (c *Case) Expr(id TypeID, from string) string {
	if id == CtxType {
		return "context.Context"
	}
	t := c.T(id)
	q := func(name, pkg string) string {
		if pkg == from {
			return name
		}
		e := c.Ext(pkg)
		if e == nil {
			return name
		}
		if e.Alias != "" {
			return e.Alias + "." + name
		}
		return e.Name + "." + name
	}
	switch t.Kind {
	case KStruct, KNBasic, KIface:
		if t.AliasSpell != "" && t.Pkg == "" && from == "" {
			return t.AliasSpell
		}
		return q(t.Name, t.Pkg)
	case KBasic:
		return t.Basic
	case KPtr:
		return "*" + c.Expr(t.Elem, from)
	case KSlice:
		return "[]" + c.Expr(t.Elem, from)
	case KArray:
		return fmt.Sprintf("[%d]%s", t.Len, c.Expr(t.Elem, from))
	case KMap:
		return "map[" + c.Expr(t.Key, from) + "]" + c.Expr(t.Elem, from)
	case KChan:
		if t.RecvOnly {
			return "<-chan " + c.Expr(t.Elem, from)
		}
		if el := c.T(t.Elem); el.Kind == KChan && el.RecvOnly {
			return "chan (" + c.Expr(t.Elem, from) + ")" // chan <-chan T would be chan<- (chan T)
		}
		return "chan " + c.Expr(t.Elem, from)
	case KFunc:
		ps := ""
		if t.HasKey {
			ps = c.Expr(t.Key, from)
			if t.Variadic {
				ps = "int, ..." + ps
			}
		}
		return "func(" + ps + ") " + c.Expr(t.Elem, from)
	case KAStruct:
		return "struct{ A " + c.Expr(t.Elem, from) + " }"
	case KAIface:
		return "interface{ " + c.T(t.Elem).Method + "() uint32 }"
	case KGeneric:
		if t.GenAlias && t.Pkg == "" && from == "" {
			return t.Name + "Of[" + c.Expr(t.Elem, from) + "]"
		}
		return q(t.Name, t.Pkg) + "[" + c.Expr(t.Elem, from) + "]"
	}
	return "invalid"
}

// ExprParam renders the type as it is spelled in a provider's PARAMETER list: identical
// types may be spelled differently there (byte for uint8, rune for int32, any for
// interface{}), which must not matter for resolution by type.
func (c *Case) ExprParam(id TypeID, from string) string {
	if id == CtxType {
		return c.Expr(id, from)
	}
	t := c.T(id)
	switch t.Kind {
	case KBasic:
		if t.AltSpell != "" {
			return t.AltSpell
		}
	case KPtr:
		return "*" + c.ExprParam(t.Elem, from)
	case KSlice:
		return "[]" + c.ExprParam(t.Elem, from)
	case KArray:
		return fmt.Sprintf("[%d]%s", t.Len, c.ExprParam(t.Elem, from))
	case KMap:
		return "map[" + c.ExprParam(t.Key, from) + "]" + c.ExprParam(t.Elem, from)
	case KGeneric:
		base := c.Expr(id, from)
		if i := strings.IndexByte(base, '['); i >= 0 {
			return base[:i] + "[" + c.ExprParam(t.Elem, from) + "]"
		}
	}
	return c.Expr(id, from)
}

// Describe is a short human-readable name of a type for messages.
func (c *Case) Describe(id TypeID) string { return c.Expr(id, "") }

// MentionsHidden reports whether the type expression mentions a hidden external package.
func (c *Case) MentionsHidden(id TypeID) bool {
	used := map[string]bool{}
	c.UsesExt(id, used)
	for k := range used {
		if e := c.Ext(k); e != nil && e.Hidden {
			return true
		}
	}
	return false
}

// UsesExt reports which ext packages the type expression mentions.
func (c *Case) UsesExt(id TypeID, out map[string]bool) {
	if id == CtxType {
		return
	}
	t := c.T(id)
	switch t.Kind {
	case KStruct, KNBasic, KIface:
		if t.Pkg != "" {
			out[t.Pkg] = true
		}
	case KGeneric:
		if t.Pkg != "" {
			out[t.Pkg] = true
		}
		c.UsesExt(t.Elem, out)
	case KBasic:
	case KMap:
		c.UsesExt(t.Key, out)
		c.UsesExt(t.Elem, out)
	case KFunc:
		if t.HasKey {
			c.UsesExt(t.Key, out)
		}
		c.UsesExt(t.Elem, out)
	case KAIface:
	default:
		c.UsesExt(t.Elem, out)
	}
}

// ---------------------------------------------------------------- flattening

// Unit is one provider occurrence after flattening Sets.
type Unit struct {
	Idx   int // position in the flattened list
	Kind  string
	Prov  *Prov
	Async bool
	Bind  []TypeID
	Type  TypeID // struct / value type
	VID   int
	H     uint32
	Literal bool
	// for field accessors created from a struct unit:
	Field    *Field
	FieldIdx int
}

func (u *Unit) String() string {
	switch u.Kind {
	case "prov":
		return fmt.Sprintf("P%d(%s)", u.Prov.ID, u.Prov.Name)
	case "value":
		return fmt.Sprintf("V%d", u.VID)
	case "field":
		return fmt.Sprintf("F(%d.%s)", u.Type, u.Field.Name)
	case "struct":
		return fmt.Sprintf("S(%d)", u.Type)
	}
	return u.Kind
}

// PID is the identity under which the unit's invocation is logged by the runtime
// (providers: their ID; values: 100000+VID; field reads are not logged).
func (u *Unit) PID() int {
	switch u.Kind {
	case "prov":
		return u.Prov.ID
	case "value":
		if u.Literal {
			return -1
		}
		return 100000 + u.VID
	}
	return -1
}

// HasInjectorNamed reports whether some declaration asks for a function of that name.
func (c *Case) HasInjectorNamed(name string) bool {
	for fi := range c.Files {
		for _, in := range c.Files[fi].Injectors {
			if in.Name == name {
				return true
			}
		}
	}
	return false
}

func (c *Case) SetByName(name string) *SetDecl {
	for hop := 0; hop < 8; hop++ {
		var found *SetDecl
		for fi := range c.Files {
			for si := range c.Files[fi].Sets {
				if c.Files[fi].Sets[si].Name == name {
					found = &c.Files[fi].Sets[si]
				}
			}
		}
		if found == nil || found.AliasOf == "" {
			return found
		}
		name = found.AliasOf // var s2 = s1: follow the alias to the set it names
	}
	return nil
}

// Flatten expands Sets recursively in order.
func (c *Case) Flatten(elems []Elem) []*Unit {
	var out []*Unit
	visited := map[*SetDecl]bool{} // a Set variable reached along two paths contributes its providers once
	var walk func(es []Elem, depth int)
	walk = func(es []Elem, depth int) {
		if depth > 8 {
			return
		}
		for i := range es {
			e := &es[i]
			switch e.Kind {
			case "prov":
				out = append(out, &Unit{Kind: "prov", Prov: c.ProvByID(e.Prov), Async: e.Async, Bind: e.Bind})
			case "struct":
				out = append(out, &Unit{Kind: "struct", Type: e.Struct, Async: e.Async, Bind: e.Bind})
			case "value":
				out = append(out, &Unit{Kind: "value", Type: e.Value, VID: e.VID, H: e.H, Literal: e.Literal})
			case "set":
				if s := c.SetByName(e.Set); s != nil && !visited[s] {
					visited[s] = true
					walk(s.Elems, depth+1)
				}
			case "inline":
				walk(e.Inline, depth+1)
			}
		}
	}
	walk(elems, 0)
	for i, u := range out {
		u.Idx = i
	}
	return out
}

// SetDepth returns the maximal Set nesting depth used by the elems.
func (c *Case) SetDepth(elems []Elem) int {
	d := 0
	for _, e := range elems {
		switch e.Kind {
		case "set":
			if s := c.SetByName(e.Set); s != nil {
				if x := 1 + c.SetDepth(s.Elems); x > d {
					d = x
				}
			}
		case "inline":
			if x := 1 + c.SetDepth(e.Inline); x > d {
				d = x
			}
		}
	}
	return d
}

// Implements reports whether type id implements interface iface (by construction:
// the struct the interface was created for, and pointers to it; the struct itself only
// when its methods have value receivers).
func (c *Case) Implements(id, iface TypeID) bool {
	if id == CtxType {
		return false
	}
	it := c.T(iface)
	if it.Kind != KIface {
		return false
	}
	if id == iface {
		return true
	}
	if st := c.StructOf(id); st != nil {
		for _, x := range st.AlsoImpl {
			if x == iface {
				return true
			}
		}
	}
	// find the struct behind Impl
	base := it.Impl
	if c.T(base).Kind == KPtr {
		base = c.T(base).Elem
	}
	t := c.T(id)
	switch t.Kind {
	case KStruct:
		return id == base && !c.T(base).PtrRecv
	case KPtr:
		return t.Elem == base
	case KIface:
		return false
	}
	return false
}

func (c *Case) StructOf(id TypeID) *Type {
	t := c.T(id)
	if t.Kind == KPtr {
		t = c.T(t.Elem)
	}
	if t.Kind == KStruct {
		return t
	}
	return nil
}

func JoinIDs(ids []TypeID) string {
	var s []string
	for _, i := range ids {
		s = append(s, fmt.Sprint(int(i)))
	}
	return strings.Join(s, ",")
}

// TypeString reproduces go/types' Type.String() for the type (full package paths),
// which is how the generator's diagnostics name types.
func (c *Case) TypeString(id TypeID, module, userPkg string) string {
	if id == CtxType {
		return "context.Context"
	}
	t := c.T(id)
	q := func(name, pkg string) string {
		if pkg == "" {
			return module + "/" + userPkg + "." + name
		}
		return module + "/" + c.Ext(pkg).Path + "." + name
	}
	ts := func(x TypeID) string { return c.TypeString(x, module, userPkg) }
	switch t.Kind {
	case KStruct, KNBasic, KIface:
		return q(t.Name, t.Pkg)
	case KBasic:
		return t.Basic
	case KPtr:
		return "*" + ts(t.Elem)
	case KSlice:
		return "[]" + ts(t.Elem)
	case KArray:
		return fmt.Sprintf("[%d]%s", t.Len, ts(t.Elem))
	case KMap:
		return "map[" + ts(t.Key) + "]" + ts(t.Elem)
	case KChan:
		if t.RecvOnly {
			return "<-chan " + ts(t.Elem)
		}
		if el := c.T(t.Elem); el.Kind == KChan && el.RecvOnly {
			return "chan (" + ts(t.Elem) + ")"
		}
		return "chan " + ts(t.Elem)
	case KFunc:
		ps := ""
		if t.HasKey {
			ps = ts(t.Key)
			if t.Variadic {
				ps = "int, ..." + ps
			}
		}
		return "func(" + ps + ") " + ts(t.Elem)
	case KAStruct:
		return "struct{A " + ts(t.Elem) + "}"
	case KAIface:
		return "interface{" + c.T(t.Elem).Method + "() uint32}"
	case KGeneric:
		return q(t.Name, t.Pkg) + "[" + ts(t.Elem) + "]"
	}
	return "?"
}

// NamedIn returns the names of the named types mentioned by the type.
func (c *Case) NamedIn(id TypeID, out map[string]bool) {
	if id == CtxType {
		return
	}
	t := c.T(id)
	switch t.Kind {
	case KStruct, KNBasic, KIface:
		out[t.Name] = true
	case KGeneric:
		out[t.Name] = true
		c.NamedIn(t.Elem, out)
	case KBasic:
	case KMap:
		c.NamedIn(t.Key, out)
		c.NamedIn(t.Elem, out)
	case KFunc:
		if t.HasKey {
			c.NamedIn(t.Key, out)
		}
		c.NamedIn(t.Elem, out)
	case KAIface:
		c.NamedIn(t.Elem, out)
	default:
		c.NamedIn(t.Elem, out)
	}
}
