package spec

import (
	"fmt"
	"strings"

	"pgregory.net/rapid"
)

// WElem is one argument of wire.NewSet / wire.Build.
type WElem struct {
	Kind   string   // prov | set | inline | bind | value | ivalue | struct | fieldsof
	Prov   int      `json:",omitempty"`
	Set    string   `json:",omitempty"`
	Inline []WElem  `json:",omitempty"`
	Iface  TypeID   `json:",omitempty"` // bind / ivalue
	Impl   TypeID   `json:",omitempty"` // bind: concrete type (T or *T) the interface is bound to
	Type   TypeID   `json:",omitempty"` // value / ivalue: type of the variable holding the value
	Var    string   `json:",omitempty"`
	VarPkg string   `json:",omitempty"` // value: the variable is declared in this external package (key of Exts)
	H      uint32   `json:",omitempty"`
	Struct TypeID   `json:",omitempty"` // struct / fieldsof: the struct type T
	Fields []string `json:",omitempty"` // struct: ["*"] or names; fieldsof: names
	Ptr    bool     `json:",omitempty"` // fieldsof: new(*T) instead of new(T)
	Paren  bool     `json:",omitempty"` // the element is written in parentheses
	NilPtr bool     `json:",omitempty"` // bind / ivalue / fieldsof: type arguments written (*T)(nil) instead of new(T)
	ImplAlias string `json:",omitempty"` // bind: the implementation is spelled through this alias of its struct (declared next to it), only here
}

type WSet struct {
	Name  string
	Elems []WElem
	Paren bool `json:",omitempty"` // var S = (wire.NewSet(...))
	AliasOf string `json:",omitempty"` // var S = <other set variable>
}

type WInjector struct {
	Name   string
	Unused []TypeID `json:",omitempty"` // argument types no provider uses
	Args   []TypeID
	Want   TypeID
	Err    bool
	Elems  []WElem
	Panic  bool `json:",omitempty"` // body is panic(wire.Build(...)) instead of wire.Build(...); return zero
}

type WFile struct {
	Name      string
	ExtPlain  []string `json:",omitempty"` // ext package keys this file imports WITHOUT alias (same-name packages in different files)
	Tag       bool     // //go:build wireinject
	LegacyTag bool     `json:",omitempty"` // additionally the old "// +build wireinject" line
	WireAlias string   `json:",omitempty"` // google/wire is imported under this name
	VarBlock  bool     `json:",omitempty"` // the sets of the file are declared in one var ( ... ) block
	Sets      []WSet
	Injectors []WInjector
}

// WCase is a google/wire configuration over a spec.Case universe (types + providers).
type WCase struct {
	Spec     *Case
	Files    []WFile
	Features []string
	Plant    string `json:",omitempty"` // C14: planted invalid input kind
}

func (w *WCase) AddFeature(f string) {
	for _, x := range w.Features {
		if x == f {
			return
		}
	}
	w.Features = append(w.Features, f)
}

func (w *WCase) HasFeature(f string) bool {
	for _, x := range w.Features {
		if x == f {
			return true
		}
	}
	return false
}

// WOpts steers the wire generator.
type WOpts struct {
	MaxUnits  int
	Allow     map[string]bool
	OnExclude func(string)
	MaxFiles  int
	ExtNames  bool // external packages with colliding names (C14)
}

var WireFeatures = []string{"bind", "bind-value-impl", "value", "ivalue", "struct", "struct-fields", "struct-value-consumer", "fieldsof", "fieldsof-value", "fieldsof-ptr",
	"sets", "nested-sets", "inline-sets", "inline-sets-deep", "struct-unexported-field", "ext-alias-suffix", "ext-name-differs-from-path", "ext-alias-equals-other-path-element", "ext-alias-equals-directory", "composite", "same-name-packages-across-files", "fieldsof-twice", "second-injector", "twin-types-in-same-named-packages", "value-ext-var", "build-in-panic", "composite-chan-of-recv-chan", "bind-three-interfaces", "struct-unselected-field-of-other-package", "wire-nil-pointer-type-args", "bind-impl-through-alias", "composite-anon-struct", "wire-set-alias-var", "ivalue-concrete-also-provided", "pkg-level-name-equals-aliased-package", "struct-field-named-like-package", "struct-field-named-like-type", "bind-two-interfaces", "wire-paren", "struct-keyword-field", "struct-noinject-tag", "struct-no-fields", "named-alias", "wire-import-alias", "wire-legacy-build-tag", "wire-sets-in-var-block", "value-ext-nested-selector", "decoy-constructor-in-migrated-package", "struct-in-ext-package", "fieldsof-in-ext-package", "err", "args", "unused-arg", "multi-file", "ext", "bind-foreign-ctor", "bind-split-set", "multi-result"}

func WAllowAll(except ...string) map[string]bool {
	m := map[string]bool{}
	for _, f := range WireFeatures {
		m[f] = true
	}
	for _, e := range except {
		delete(m, e)
	}
	return m
}

type wgen struct {
	rt   *rapid.T
	w    *WCase
	c    *Case
	o    WOpts
	used map[string]bool
	seq  map[string]int
	// supplied types with their producing unit index; consumed marks
	supplied []TypeID
	unitOf   map[TypeID]int
	consumed map[TypeID]bool
	units    []WElem
	requires [][]TypeID // per unit
	provides [][]TypeID
	args     []TypeID
	pid      int
	// twin scenario: the two providers of same-named types in same-named packages, and the
	// types the requested type's provider takes from them
	twinUnits []int
	twinWant  []TypeID
	wantExtF  bool
}

func (g *wgen) want(f, label string, pct int) bool {
	v := rapid.IntRange(0, 99).Draw(g.rt, label) >= 100-pct
	if !v {
		return false
	}
	if !g.o.Allow[f] {
		if g.o.OnExclude != nil {
			g.o.OnExclude(f)
		}
		return false
	}
	g.w.AddFeature(f)
	return true
}

// extTypeName: type names are unique per external package only, so two packages called util
// can both declare a type Eaa (resolution must key on the full package path).
// aliasName draws the name of an alias through which a local named type is spelled in the user
// files ("" = none).
func (g *wgen) aliasName() string {
	if !g.o.Allow["named-alias"] || rapid.IntRange(0, 5).Draw(g.rt, "named-alias") != 5 {
		return ""
	}
	g.w.AddFeature("named-alias")
	return g.name("H")
}

func (g *wgen) extTypeName(pkg string) string {
	k := "ext:" + pkg
	n := g.seq[k]
	g.seq[k]++
	return "E" + letters(n)
}

func (g *wgen) name(prefix string) string {
	for {
		n := g.seq[prefix]
		g.seq[prefix]++
		s := prefix + letters(n)
		if !g.used[s] {
			g.used[s] = true
			return s
		}
	}
}

func (g *wgen) addType(t Type) TypeID {
	t.ID = TypeID(len(g.c.Types))
	g.c.Types = append(g.c.Types, t)
	return t.ID
}

func (g *wgen) ptrTo(s TypeID) TypeID {
	for i := range g.c.Types {
		if g.c.Types[i].Kind == KPtr && g.c.Types[i].Elem == s {
			return g.c.Types[i].ID
		}
	}
	return g.addType(Type{Kind: KPtr, Elem: s})
}

func (g *wgen) extKey() string {
	if len(g.c.Exts) == 0 {
		if g.o.ExtNames {
			switch rapid.IntRange(0, 4).Draw(g.rt, "extnames-kind") {
			case 4:
				// an explicit alias v2 for one package and, in the same file, an unaliased import of
				// another package whose path also ends in v2 but which declares another name
				g.c.Exts = append(g.c.Exts, Ext{Key: "ext", Path: "api/v2", Name: "v2", Alias: "v2"}, Ext{Key: "ext2", Path: "lib/v2", Name: "handlers"})
				g.w.AddFeature("ext-alias-equals-other-path-element")
			case 3:
				// the alias equals the last element of the import path, the package there has another name
				g.c.Exts = append(g.c.Exts, Ext{Key: "ext", Path: "x/store", Name: "storage", Alias: "store"})
				g.w.AddFeature("ext-alias-equals-directory")
			case 0:
				// two packages with the same name, used from different files
				g.c.Exts = append(g.c.Exts, Ext{Key: "ext", Path: "a/util", Name: "util"}, Ext{Key: "ext2", Path: "b/util", Name: "util", Alias: "util2"})
			case 1:
				// an alias that is a proper suffix of the path's last element but not the package name
				g.c.Exts = append(g.c.Exts, Ext{Key: "ext", Path: "gen/userpb", Name: "userpb", Alias: "pb"})
				g.w.AddFeature("ext-alias-suffix")
			default:
				// package name differs from the last element of its import path, no alias
				g.c.Exts = append(g.c.Exts, Ext{Key: "ext", Path: "x/my-store", Name: "mystore"})
				g.w.AddFeature("ext-name-differs-from-path")
			}
		} else {
			g.c.Exts = append(g.c.Exts, Ext{Key: "ext", Path: "extlib", Name: "extlib"})
		}
	}
	return g.c.Exts[rapid.IntRange(0, len(g.c.Exts)-1).Draw(g.rt, "whichext")].Key
}

// fresh produced type: *T, T or a named basic
func (g *wgen) freshType(pkg string) TypeID {
	prefix := "T"
	if pkg != "" {
		prefix = "E"
	}
	structName := func() string {
		if pkg != "" {
			return g.extTypeName(pkg)
		}
		return g.name(prefix)
	}
	switch rapid.IntRange(0, 6).Draw(g.rt, "tkind") {
	case 6:
		if pkg == "" && g.o.Allow["composite"] {
			// composite types (also over external package types) exercise the type printer of migrate
			g.w.AddFeature("composite")
			epkg := ""
			if len(g.c.Exts) > 0 && rapid.Bool().Draw(g.rt, "compext") {
				epkg = g.c.Exts[0].Key
			}
			ep := "T"
			if epkg != "" {
				ep = "E"
			}
			nm := g.name(ep)
			if epkg != "" {
				nm = g.extTypeName(epkg)
			}
			s := g.addType(Type{Kind: KStruct, Name: nm, Pkg: epkg})
			if rapid.Bool().Draw(g.rt, "compptr") {
				s = g.ptrTo(s)
			}
			switch rapid.IntRange(0, 7).Draw(g.rt, "compkind") {
			case 4:
				// func(K) T
				g.w.AddFeature("composite-func")
				ks := g.addType(Type{Kind: KBasic, Basic: "string"})
				return g.addType(Type{Kind: KFunc, Elem: s, Key: ks, HasKey: true})
			case 5:
				g.w.AddFeature("composite-func")
				return g.addType(Type{Kind: KFunc, Elem: s})
			case 7:
				// anonymous struct type: struct{ A T }
				g.w.AddFeature("composite-anon-struct")
				return g.addType(Type{Kind: KAStruct, Elem: s})
			case 6:
				// instantiated generic type Box[T]
				g.w.AddFeature("composite-generic")
				g.used["Box"] = true
				return g.addType(Type{Kind: KGeneric, Name: "Box", Elem: s})
			case 0:
				return g.addType(Type{Kind: KSlice, Elem: s})
			case 1:
				return g.addType(Type{Kind: KArray, Elem: s, Len: 2})
			case 2:
				ks := g.addType(Type{Kind: KBasic, Basic: "string"})
				return g.addType(Type{Kind: KMap, Key: ks, HasKey: true, Elem: s})
			default:
				if rapid.Bool().Draw(g.rt, "chanchan") {
					// chan (<-chan T): the parentheses matter
					g.w.AddFeature("composite-chan-of-recv-chan")
					return g.addType(Type{Kind: KChan, Elem: g.addType(Type{Kind: KChan, Elem: s, RecvOnly: true})})
				}
				return g.addType(Type{Kind: KChan, Elem: s})
			}
		}
		return g.ptrTo(g.addType(Type{Kind: KStruct, Name: structName(), Pkg: pkg}))
	case 0:
		if pkg == "" {
			return g.addType(Type{Kind: KStruct, Name: structName(), AliasSpell: g.aliasName()})
		}
		return g.addType(Type{Kind: KStruct, Name: structName(), Pkg: pkg})
	case 1:
		if pkg == "" {
			return g.addType(Type{Kind: KNBasic, Name: g.name("N"), Basic: rapid.SampledFrom([]string{"int", "string", "int64"}).Draw(g.rt, "under")})
		}
		fallthrough
	default:
		s := g.addType(Type{Kind: KStruct, Name: structName(), Pkg: pkg})
		return g.ptrTo(s)
	}
}

func (g *wgen) supply(t TypeID, unit int) {
	g.supplied = append(g.supplied, t)
	g.unitOf[t] = unit
}

// pick draws a supplied type, preferring unconsumed ones; ok=false when none.
func (g *wgen) pick(label string, filter func(TypeID) bool) (TypeID, bool) {
	var fresh, all []TypeID
	for _, t := range g.supplied {
		if filter != nil && !filter(t) {
			continue
		}
		all = append(all, t)
		if !g.consumed[t] {
			fresh = append(fresh, t)
		}
	}
	c := fresh
	if len(c) == 0 || rapid.IntRange(0, 9).Draw(g.rt, label+"-any") >= 8 {
		c = all
	}
	if len(c) == 0 {
		return 0, false
	}
	t := c[len(c)-1-rapid.IntRange(0, len(c)-1).Draw(g.rt, label)]
	g.consumed[t] = true
	return t, true
}

func (g *wgen) addUnit(e WElem, req, prov []TypeID) int {
	g.units = append(g.units, e)
	g.requires = append(g.requires, req)
	g.provides = append(g.provides, prov)
	i := len(g.units) - 1
	for _, t := range prov {
		g.supply(t, i)
	}
	return i
}

func (g *wgen) newArg() TypeID {
	var t TypeID
	switch rapid.IntRange(0, 2).Draw(g.rt, "argkind") {
	case 0:
		t = g.addType(Type{Kind: KNBasic, Name: g.name("N"), Basic: "int"})
	case 1:
		t = g.addType(Type{Kind: KStruct, Name: g.name("A")})
	default:
		t = g.ptrTo(g.addType(Type{Kind: KStruct, Name: g.name("A")}))
	}
	g.args = append(g.args, t)
	g.w.AddFeature("args")
	return t
}

// GenWire draws a wire configuration with one injector whose direct elements are all needed.
func GenWire(rt *rapid.T, o WOpts) *WCase {
	if o.MaxUnits == 0 {
		o.MaxUnits = 8
	}
	if o.MaxFiles == 0 {
		o.MaxFiles = 1
	}
	g := &wgen{rt: rt, w: &WCase{Spec: &Case{}}, o: o, used: map[string]bool{}, seq: map[string]int{}, unitOf: map[TypeID]int{}, consumed: map[TypeID]bool{}}
	g.c = g.w.Spec
	g.c.Types = []Type{{ID: 0, Kind: "none"}}
	n := rapid.IntRange(2, o.MaxUnits).Draw(rt, "nunits")
	if o.ExtNames && o.Allow["ext"] && o.Allow["bind"] && rapid.IntRange(0, 99).Draw(rt, "twin-types") < 30 {
		// two packages with the same NAME that declare a type with the same NAME: the provider of
		// one is bound to an interface, the provider of the other is an ordinary provider
		if rapid.IntRange(0, 2).Draw(rt, "twin-kind") == 2 {
			// explicit alias v2 for one package, unaliased import of another whose path also ends in
			// v2 but which declares another name - both used side by side in one file
			g.c.Exts = append(g.c.Exts, Ext{Key: "ext", Path: "api/v2", Name: "v2", Alias: "v2"}, Ext{Key: "ext2", Path: "lib/v2", Name: "handlers"})
			g.w.AddFeature("ext-alias-equals-other-path-element")
		} else {
			g.c.Exts = append(g.c.Exts, Ext{Key: "ext", Path: "a/util", Name: "util"}, Ext{Key: "ext2", Path: "b/util", Name: "util", Alias: "util2"})
			g.w.AddFeature("twin-types-in-same-named-packages")
		}
		g.w.AddFeature("ext")
		// the interface is bound on the plainly imported package or on the aliased one
		bindKey := rapid.SampledFrom([]string{"ext", "ext2"}).Draw(rt, "twin-bind-on")
		for _, key := range []string{"ext", "ext2"} {
			g.pid++
			s := g.addType(Type{Kind: KStruct, Name: g.extTypeName(key), Pkg: key})
			res := g.ptrTo(s)
			p := Prov{ID: g.pid, Form: "ext", Pkg: key, Name: "New" + g.c.T(s).Name, Results: []TypeID{res}}
			g.used[key+"."+p.Name] = true
			g.c.Provs = append(g.c.Provs, p)
			g.twinUnits = append(g.twinUnits, g.addUnit(WElem{Kind: "prov", Prov: p.ID}, nil, []TypeID{res}))
			if key != bindKey {
				g.twinWant = append(g.twinWant, res)
			}
			if key == bindKey {
				it := g.addType(Type{Kind: KIface, Name: g.name("I"), Impl: res, AliasSpell: g.aliasName()})
				g.c.Types[int(it)].Method = "VH" + g.c.T(it).Name
				g.addUnit(WElem{Kind: "bind", Iface: it, Impl: res}, []TypeID{res}, []TypeID{it})
				g.twinWant = append(g.twinWant, it)
				g.w.AddFeature("bind")
				g.decoy(p)
			}
		}
	}
	for i := 0; i < n; i++ {
		last := i == n-1
		k := rapid.IntRange(0, 99).Draw(rt, "ukind")
		switch {
		case !last && k < 8 && g.want("value", "isvalue", 100):
			if g.o.Allow["ext"] && rapid.IntRange(0, 3).Draw(rt, "extvalue") == 3 {
				// wire.Value(util.ValEaa): a variable of an external package, of a type of that package
				key := g.extKey()
				t := g.addType(Type{Kind: KStruct, Name: g.extTypeName(key), Pkg: key})
				e := WElem{Kind: "value", Type: t, Var: "Val" + g.c.T(t).Name, VarPkg: key, H: uint32(rapid.IntRange(1, 1<<20).Draw(rt, "h"))}
				xv := ExtVar{Name: e.Var, Type: t, H: e.H}
				if rapid.Bool().Draw(rt, "extvalue-nested") {
					// wire.Value(util.HoldEaa.V): the package is reached through a nested selector only
					xv.Name, xv.Holder = "Hold"+g.c.T(t).Name, true
					e.Var = xv.Name + ".V"
					g.w.AddFeature("value-ext-nested-selector")
				}
				g.c.Ext(key).Vars = append(g.c.Ext(key).Vars, xv)
				g.addUnit(e, nil, []TypeID{t})
				g.w.AddFeature("value-ext-var")
				continue
			}
			t := g.freshType("")
			g.addUnit(WElem{Kind: "value", Type: t, Var: g.name("val"), H: uint32(rapid.IntRange(1, 1<<20).Draw(rt, "h"))}, nil, []TypeID{t})
		case !last && k < 14 && g.want("ivalue", "isivalue", 100):
			s := g.addType(Type{Kind: KStruct, Name: g.name("T")})
			it := g.addType(Type{Kind: KIface, Name: g.name("I"), Impl: s, AliasSpell: g.aliasName()})
			g.c.Types[int(it)].Method = "VH" + g.c.T(it).Name
			g.addUnit(WElem{Kind: "ivalue", Iface: it, Type: s, Var: g.name("ival"), H: uint32(rapid.IntRange(1, 1<<20).Draw(rt, "h"))}, nil, []TypeID{it})
			if g.want("ivalue-concrete-also-provided", "ivalconc", 30) {
				// wire.InterfaceValue provides the interface only: the concrete type may have a
				// provider of its own
				g.pid++
				p := Prov{ID: g.pid, Form: "func", Name: "New" + g.c.T(s).Name, Results: []TypeID{s}}
				g.used["."+p.Name] = true
				g.c.Provs = append(g.c.Provs, p)
				g.addUnit(WElem{Kind: "prov", Prov: p.ID}, nil, []TypeID{s})
			}
		case !last && k < 26 && len(g.supplied) > 0 && g.want("struct", "isstruct", 100):
			g.genStruct()
		case !last && k < 38 && g.want("fieldsof", "isfieldsof", 100):
			g.genFieldsOf()
			if rapid.IntRange(0, 99).Draw(rt, "fieldsof-twice") < 45 {
				g.genFieldsOf() // two FieldsOf over different struct types in one list
				g.w.AddFeature("fieldsof-twice")
			}
		default:
			g.genProv(last)
		}
	}
	g.assemble()
	g.setAliases()
	g.oldSpellings()
	g.parens()
	// a package-level identifier of the migrated package has the NAME of an external package that
	// every file imports under an alias: a migrated file must not import it under its plain name
	for i := range g.c.Exts {
		e := &g.c.Exts[i]
		if e.Alias != "" && e.Alias != e.Name && !g.used[e.Name] && len(g.c.Exts) == 1 && g.want("pkg-level-name-equals-aliased-package", "pkgname", 80) {
			g.used[e.Name] = true
			g.c.PkgNames = append(g.c.PkgNames, e.Name)
		}
	}
	if g.wantExtF {
		g.c.Exts = append(g.c.Exts, Ext{Key: "extf", Path: "x/onlyfield", Name: "onlyfield"})
	}
	return g.w
}

func (g *wgen) genProv(last bool) {
	g.pid++
	p := Prov{ID: g.pid, Form: "func"}
	pkg := ""
	if !last && g.want("ext", "isext", 15) {
		p.Form = "ext"
		p.Pkg = g.extKey()
		pkg = p.Pkg
	}
	filter := func(t TypeID) bool { return true }
	if pkg != "" {
		filter = func(t TypeID) bool {
			tt := g.c.T(t)
			if tt.Kind == KPtr {
				tt = g.c.T(tt.Elem)
			}
			return (tt.Kind == KStruct || tt.Kind == KNBasic) && tt.Pkg == pkg && len(tt.Fields) == 0
		}
	}
	np := rapid.IntRange(0, 3).Draw(g.rt, "nparams")
	if last {
		np = rapid.IntRange(2, 4).Draw(g.rt, "lastparams")
	}
	seen := map[TypeID]bool{}
	if last {
		// the twin scenario's interface and second provider are consumed by the requested type
		for _, t := range g.twinWant {
			seen[t] = true
			g.consumed[t] = true
			p.Params = append(p.Params, t)
		}
	}
	for i := 0; i < np; i++ {
		if !last && pkg == "" && rapid.IntRange(0, 9).Draw(g.rt, "argsrc") >= 8 && g.o.Allow["args"] {
			var t TypeID
			if len(g.args) > 0 && rapid.Bool().Draw(g.rt, "reusearg") {
				t = g.args[rapid.IntRange(0, len(g.args)-1).Draw(g.rt, "argidx")]
			} else {
				t = g.newArg()
			}
			if !seen[t] {
				seen[t] = true
				p.Params = append(p.Params, t)
			}
			continue
		}
		t, ok := g.pick("param", func(t TypeID) bool { return filter(t) && !seen[t] })
		if !ok {
			continue
		}
		seen[t] = true
		p.Params = append(p.Params, t)
	}
	res := g.freshType(pkg)
	p.Results = []TypeID{res}
	if pkg == "" && g.want("multi-result", "multires", 10) {
		// wire allows (T, error) and (T, func(), error) only: no multi-value providers. keep single result.
		_ = res
	}
	if g.want("err", "err", 30) {
		p.Err = true
	}
	base := g.c.T(res).Name
	if st := g.c.StructOf(res); st != nil {
		base = st.Name
	}
	p.Name = "New" + base
	ukey := pkg + "." + p.Name
	if g.used[ukey] {
		p.Name = g.name("New" + base)
		ukey = pkg + "." + p.Name
	}
	g.used[ukey] = true
	// foreign constructor name: a provider of a bound implementation that is not called New<Type>
	e := WElem{Kind: "prov", Prov: p.ID}
	prov := []TypeID{res}
	ui := len(g.units)
	st := g.c.StructOf(res)
	if st != nil && len(st.Fields) == 0 && g.want("bind", "bind", 28) {
		valueImpl := g.c.T(res).Kind != KPtr
		if valueImpl && !g.o.Allow["bind-value-impl"] {
			if g.o.OnExclude != nil {
				g.o.OnExclude("bind-value-impl")
			}
		} else {
			if valueImpl {
				g.w.AddFeature("bind-value-impl")
			}
			if g.want("bind-foreign-ctor", "foreignctor", 20) {
				p.Name = g.name("Provide" + base)
			}
			it := g.addType(Type{Kind: KIface, Name: g.name("I"), Impl: res, AliasSpell: g.aliasName()})
			g.c.Types[int(it)].Method = "VH" + g.c.T(it).Name
			g.c.Provs = append(g.c.Provs, p)
			g.addUnit(e, p.Params, prov)
			g.addUnit(WElem{Kind: "bind", Iface: it, Impl: res}, []TypeID{res}, []TypeID{it})
			if g.want("bind-two-interfaces", "bind2", 50) {
				// the same implementation is bound to a second interface in the same list
				it2 := g.addType(Type{Kind: KIface, Name: g.name("I"), Impl: res})
				g.c.Types[int(it2)].Method = "VH" + g.c.T(it2).Name
				g.addUnit(WElem{Kind: "bind", Iface: it2, Impl: res}, []TypeID{res}, []TypeID{it2})
				if rapid.Bool().Draw(g.rt, "bind3") {
					// ... and to a third one
					it3 := g.addType(Type{Kind: KIface, Name: g.name("I"), Impl: res})
					g.c.Types[int(it3)].Method = "VH" + g.c.T(it3).Name
					g.addUnit(WElem{Kind: "bind", Iface: it3, Impl: res}, []TypeID{res}, []TypeID{it3})
					g.w.AddFeature("bind-three-interfaces")
					g.twinWant = append(g.twinWant, it2) // the requested type's provider takes the middle interface
				}
			}
			g.decoy(p)
			_ = ui
			return
		}
	}
	g.c.Provs = append(g.c.Provs, p)
	g.addUnit(e, p.Params, prov)
}

// decoy declares, next to the wire configuration, an unrelated function with the name of an
// external package's constructor whose result is bound to an interface.
func (g *wgen) decoy(p Prov) {
	if p.Form != "ext" || g.used["."+p.Name] || !rapid.Bool().Draw(g.rt, "decoy-ctor") {
		return
	}
	g.used["."+p.Name] = true
	g.c.PkgFuncs = append(g.c.PkgFuncs, p.Name)
	g.w.AddFeature("decoy-constructor-in-migrated-package")
}

// genStruct: wire.Struct(new(S), fields...) assembles S from already supplied types.
func (g *wgen) genStruct() {
	nf := rapid.IntRange(1, 3).Draw(g.rt, "nfields")
	s := Type{Kind: KStruct, Name: g.name("S"), NoHash: true}
	var req []TypeID
	seen := map[TypeID]bool{}
	// the target struct may be declared in an external package: then its (exported) fields have
	// plain named types of that package
	extPkg := ""
	inExt := func(t TypeID, key string) bool {
		tt := g.c.T(t)
		return (tt.Kind == KStruct || tt.Kind == KNBasic) && tt.Pkg == key && len(tt.Fields) == 0 && !tt.NoHash
	}
	if len(g.c.Exts) > 0 && g.o.Allow["ext"] && rapid.Bool().Draw(g.rt, "struct-in-ext") {
		key := g.c.Exts[rapid.IntRange(0, len(g.c.Exts)-1).Draw(g.rt, "struct-ext")].Key
		for _, t := range g.supplied {
			if inExt(t, key) {
				extPkg = key
			}
		}
		if extPkg != "" {
			s.Pkg = extPkg
			s.Name = g.extTypeName(extPkg)
			g.w.AddFeature("struct-in-ext-package")
		}
	}
	for i := 0; i < nf; i++ {
		t, ok := g.pick("sfield", func(t TypeID) bool { return !seen[t] && (extPkg == "" || inExt(t, extPkg)) })
		if !ok {
			break
		}
		seen[t] = true
		fname := "F" + string(rune('A'+i))
		if extPkg == "" && g.want("struct-unexported-field", "unexpfield", 30) {
			fname = "f" + string(rune('a'+i)) // same-package unexported field: wire injects it too
		} else if extPkg != "" && i == 0 && g.want("struct-field-named-like-package", "pkgfield", 30) {
			// a struct of another package whose first field is named after that package (Util in
			// package util): the parameter util must not capture the qualifier of util.Saa
			n := g.c.Ext(extPkg).Name
			fname = strings.ToUpper(n[:1]) + n[1:]
		} else if extPkg == "" && i == 0 && g.want("struct-field-named-like-type", "typefield", 12) {
			// an unexported struct type whose first field is its exported namesake: saa{Saa: saa}
			fname = s.Name
			s.Name = strings.ToLower(s.Name[:1]) + s.Name[1:]
			if g.used[s.Name] {
				s.Name, fname = fname, "F"+string(rune('A'+i))
			} else {
				g.used[s.Name] = true
			}
		} else if g.want("struct-keyword-field", "kwfield", 15) {
			// exported field whose lower-case form is a Go keyword
			kw := []string{"Type", "Func", "Range", "Var", "Map", "Go", "Select", "Chan", "Default", "Import"}
			fname = kw[(i*3+rapid.IntRange(0, 2).Draw(g.rt, "kwidx"))%len(kw)]
		}
		f := Field{Name: fname, Type: t}
		if i > 0 && g.want("struct-noinject-tag", "noinject", 20) {
			f.Tag = `wire:"-"` // wire never injects this field
		}
		s.Fields = append(s.Fields, f)
		if f.Tag == "" {
			req = append(req, t)
		}
	}
	if len(s.Fields) == 0 {
		return
	}
	// an extra field that is not injected when a field list is given
	fields := []string{"*"}
	if g.want("struct-no-fields", "snofields", 10) {
		// wire.Struct(new(S)): no field names, nothing is injected
		fields = []string{}
		req = nil
	} else if len(s.Fields) >= 2 && g.want("struct-fields", "sfl", 40) {
		fields = nil
		for i, f := range s.Fields {
			if f.Tag != "" {
				continue
			}
			if i == 0 || rapid.Bool().Draw(g.rt, "keepfield") {
				fields = append(fields, f.Name)
			}
		}
		var nreq []TypeID
		for _, f := range s.Fields {
			for _, n := range fields {
				if n == f.Name {
					nreq = append(nreq, f.Type)
				}
			}
		}
		req = nreq
	}
	if extPkg == "" && g.o.Allow["ext"] && g.want("struct-unselected-field-of-other-package", "unselfield", 40) {
		// one more field that is NOT injected (not in the field list, or tagged wire:"-" under
		// "*", or any field when no name is given); its type comes from a package nothing else
		// in the configuration mentions
		g.wantExtF = true // the package is added to the case at the very end (nothing else may pick it)
		ft := g.ptrTo(g.addType(Type{Kind: KStruct, Name: g.extTypeName("extf"), Pkg: "extf"}))
		fx := Field{Name: "FX", Type: ft}
		if len(fields) > 0 && fields[0] == "*" {
			fx.Tag = `wire:"-"`
		}
		s.Fields = append(s.Fields, fx)
	}
	sid := g.addType(s)
	pid := g.ptrTo(sid)
	// wire.Struct provides both S and *S
	if g.o.Allow["struct-value-consumer"] {
		g.addUnit(WElem{Kind: "struct", Struct: sid, Fields: fields}, req, []TypeID{pid, sid})
	} else {
		if g.o.OnExclude != nil {
			g.o.OnExclude("struct-value-consumer")
		}
		g.addUnit(WElem{Kind: "struct", Struct: sid, Fields: fields}, req, []TypeID{pid})
	}
}

// genFieldsOf: a provider returns a struct with exported fields, wire.FieldsOf exposes them.
func (g *wgen) genFieldsOf() {
	nf := rapid.IntRange(1, 3).Draw(g.rt, "nff")
	s := Type{Kind: KStruct, Name: g.name("C")}
	var ftypes []TypeID
	extPkg := ""
	if g.o.Allow["ext"] && rapid.IntRange(0, 3).Draw(g.rt, "fieldsof-in-ext") == 3 {
		// the struct, its field types and its provider all live in an external package
		extPkg = g.extKey()
		s.Pkg = extPkg
		s.Name = g.extTypeName(extPkg)
		g.w.AddFeature("fieldsof-in-ext-package")
	}
	for i := 0; i < nf; i++ {
		if extPkg != "" {
			var ft TypeID
			if rapid.Bool().Draw(g.rt, "ffext-kind") {
				ft = g.addType(Type{Kind: KStruct, Name: g.extTypeName(extPkg), Pkg: extPkg})
			} else {
				ft = g.addType(Type{Kind: KNBasic, Name: g.extTypeName(extPkg), Basic: "int", Pkg: extPkg})
			}
			s.Fields = append(s.Fields, Field{Name: "F" + string(rune('A'+i)), Type: ft})
			ftypes = append(ftypes, ft)
			continue
		}
		ft := g.freshType("")
		s.Fields = append(s.Fields, Field{Name: "F" + string(rune('A'+i)), Type: ft})
		ftypes = append(ftypes, ft)
	}
	sid := g.addType(s)
	ptr := rapid.Bool().Draw(g.rt, "ffptr")
	res := sid
	if ptr {
		res = g.ptrTo(sid)
		g.w.AddFeature("fieldsof-ptr")
	} else {
		if !g.o.Allow["fieldsof-value"] {
			if g.o.OnExclude != nil {
				g.o.OnExclude("fieldsof-value")
			}
			res = g.ptrTo(sid)
			ptr = true
		} else {
			g.w.AddFeature("fieldsof-value")
		}
	}
	// source of the struct: a provider, or an injector argument
	if extPkg != "" {
		g.pid++
		p := Prov{ID: g.pid, Form: "ext", Pkg: extPkg, Name: "New" + s.Name, Results: []TypeID{res}}
		g.used[extPkg+"."+p.Name] = true
		g.c.Provs = append(g.c.Provs, p)
		g.addUnit(WElem{Kind: "prov", Prov: p.ID}, nil, []TypeID{res})
	} else if rapid.IntRange(0, 9).Draw(g.rt, "ffsrc") < 7 || !g.o.Allow["args"] {
		g.pid++
		p := Prov{ID: g.pid, Form: "func", Name: "New" + s.Name, Results: []TypeID{res}}
		g.used[p.Name] = true
		if t, ok := g.pick("ffparam", nil); ok {
			p.Params = append(p.Params, t)
		}
		g.c.Provs = append(g.c.Provs, p)
		g.addUnit(WElem{Kind: "prov", Prov: p.ID}, p.Params, []TypeID{res})
	} else {
		g.args = append(g.args, res)
		g.w.AddFeature("args")
	}
	g.consumed[res] = true
	var names []string
	var prov []TypeID
	for i, f := range s.Fields {
		if i == 0 || rapid.Bool().Draw(g.rt, "ffkeep") {
			names = append(names, f.Name)
			prov = append(prov, ftypes[i])
		}
	}
	// the field list need not follow the declaration order of the struct
	for i := 0; i < len(names)-1; i++ {
		j := i + rapid.IntRange(0, len(names)-1-i).Draw(g.rt, "ffperm")
		names[i], names[j] = names[j], names[i]
		prov[i], prov[j] = prov[j], prov[i]
	}
	g.addUnit(WElem{Kind: "fieldsof", Struct: sid, Fields: names, Ptr: ptr}, []TypeID{res}, prov)
}

// assemble computes the needed cone of the last unit, arranges sets/files and the injector.
// setAliases declares a second variable for some sets (var setab = setaa) and lets every
// reference go through it.
func (g *wgen) setAliases() {
	if !g.o.Allow["wire-set-alias-var"] {
		return
	}
	rename := map[string]string{}
	for fi := range g.w.Files {
		f := &g.w.Files[fi]
		n := len(f.Sets)
		for si := 0; si < n; si++ {
			if rapid.IntRange(0, 5).Draw(g.rt, "setaliasvar") == 5 {
				alias := g.name("Set")
				rename[f.Sets[si].Name] = alias
				f.Sets = append(f.Sets, WSet{Name: alias, AliasOf: f.Sets[si].Name})
				g.w.AddFeature("wire-set-alias-var")
			}
		}
	}
	if len(rename) == 0 {
		return
	}
	var walk func(es []WElem)
	walk = func(es []WElem) {
		for i := range es {
			if es[i].Kind == "set" {
				if a, ok := rename[es[i].Set]; ok {
					es[i].Set = a
				}
			}
			walk(es[i].Inline)
		}
	}
	for fi := range g.w.Files {
		f := &g.w.Files[fi]
		for si := range f.Sets {
			walk(f.Sets[si].Elems)
		}
		for ii := range f.Injectors {
			walk(f.Injectors[ii].Elems)
		}
	}
}

// oldSpellings rewrites some type arguments to the pre-new(T) spelling (*T)(nil) and lets some
// bindings name their implementation through an alias that nothing else uses.
func (g *wgen) oldSpellings() {
	var walk func(es []WElem)
	walk = func(es []WElem) {
		for i := range es {
			e := &es[i]
			walk(e.Inline)
			switch e.Kind {
			case "bind", "ivalue", "fieldsof":
				if g.o.Allow["wire-nil-pointer-type-args"] && rapid.IntRange(0, 5).Draw(g.rt, "nilptr") == 5 {
					e.NilPtr = true
					g.w.AddFeature("wire-nil-pointer-type-args")
				}
			}
			if e.Kind == "bind" && g.o.Allow["bind-impl-through-alias"] {
				if st := g.c.StructOf(e.Impl); st != nil && st.Pkg == "" && st.AliasSpell == "" && rapid.IntRange(0, 4).Draw(g.rt, "implalias") == 4 {
					e.ImplAlias = g.name("H")
					g.c.ExtraAliases = append(g.c.ExtraAliases, [2]string{e.ImplAlias, st.Name})
					g.w.AddFeature("bind-impl-through-alias")
				}
			}
		}
	}
	for fi := range g.w.Files {
		f := &g.w.Files[fi]
		for si := range f.Sets {
			walk(f.Sets[si].Elems)
		}
		for ii := range f.Injectors {
			walk(f.Injectors[ii].Elems)
		}
	}
}

// parens puts some set initialisers and elements into parentheses.
func (g *wgen) parens() {
	var walk func(es []WElem)
	walk = func(es []WElem) {
		for i := range es {
			if es[i].Kind == "inline" {
				walk(es[i].Inline)
			}
			if rapid.IntRange(0, 11).Draw(g.rt, "elemparen") == 11 && g.o.Allow["wire-paren"] {
				es[i].Paren = true
				g.w.AddFeature("wire-paren")
			}
		}
	}
	for fi := range g.w.Files {
		f := &g.w.Files[fi]
		for si := range f.Sets {
			walk(f.Sets[si].Elems)
			if !f.VarBlock && rapid.IntRange(0, 7).Draw(g.rt, "setparen") == 7 && g.o.Allow["wire-paren"] {
				f.Sets[si].Paren = true
				g.w.AddFeature("wire-paren")
			}
		}
		for ii := range f.Injectors {
			walk(f.Injectors[ii].Elems)
		}
	}
}

func (g *wgen) assemble() {
	w := g.w
	if len(g.units) == 0 {
		return
	}
	// requested type: the last unit's first provided type
	lastU := len(g.units) - 1
	want := g.provides[lastU][0]
	needed := map[int]bool{}
	argUsed := map[TypeID]bool{}
	var visit func(u int)
	visit = func(u int) {
		if needed[u] {
			return
		}
		needed[u] = true
		for _, t := range g.requires[u] {
			if pu, ok := g.unitOf[t]; ok {
				visit(pu)
			} else {
				argUsed[t] = true
			}
		}
	}
	visit(lastU)
	// which supplied types are actually consumed by needed units (or requested)?
	consumedBy := map[TypeID]bool{want: true}
	for u := range g.units {
		if needed[u] {
			for _, t := range g.requires[u] {
				consumedBy[t] = true
			}
		}
	}
	for u := range g.units {
		e := &g.units[u]
		switch e.Kind {
		case "fieldsof":
			// wire rejects unused fields: keep only the consumed ones
			st := g.c.T(e.Struct)
			var keep []string
			for _, n := range e.Fields {
				for _, f := range st.Fields {
					if f.Name == n && consumedBy[f.Type] {
						keep = append(keep, n)
					}
				}
			}
			e.Fields = keep
		case "struct":
			if needed[u] && consumedBy[e.Struct] {
				w.AddFeature("struct-value-consumer")
			}
		}
	}
	inj := WInjector{Name: "Init" + letters(0), Want: want, Panic: g.want("build-in-panic", "buildpanic", 35)}
	for _, a := range g.args {
		if argUsed[a] {
			inj.Args = append(inj.Args, a)
		}
	}
	if g.want("unused-arg", "unusedarg", 15) {
		t := g.addType(Type{Kind: KNBasic, Name: g.name("N"), Basic: "int"})
		inj.Args = append(inj.Args, t)
		inj.Unused = append(inj.Unused, t)
	}
	for u := range g.units {
		if needed[u] && g.units[u].Kind == "prov" && g.c.ProvByID(g.units[u].Prov).Err {
			inj.Err = true
		}
	}
	if !inj.Err && rapid.IntRange(0, 9).Draw(g.rt, "errsig") < 2 {
		inj.Err = true // an injector may declare an error result although no provider fails
	}
	// groups: direct or one of up to 2 sets; a bind stays with its provider unless bind-split-set
	nSets := 0
	if g.want("sets", "sets", 50) {
		nSets = rapid.IntRange(1, 2).Draw(g.rt, "nsets")
	}
	// two different packages called util: file 1 imports a/util, file 2 imports b/util, both as
	// plain `util`; the providers of b/util all live in one set declared in file 2
	sameName := false
	mentions := func(u int, key string) bool {
		e := &g.units[u]
		switch e.Kind {
		case "prov":
			return g.c.ProvByID(e.Prov).Pkg == key
		case "value":
			return e.VarPkg == key
		case "struct", "fieldsof":
			return g.c.T(e.Struct).Pkg == key
		}
		return false
	}
	usesExt2 := func(u int) bool { return mentions(u, "ext2") }
	usesExt1 := func(u int) bool { return mentions(u, "ext") }
	if g.c.Ext("ext2") != nil && g.c.Ext("ext2").Name == g.c.Ext("ext").Name && g.o.MaxFiles >= 2 && len(g.twinUnits) == 0 {
		for u := range g.units {
			if usesExt2(u) {
				sameName = true
			}
		}
	}
	if sameName {
		nSets = 1
		w.AddFeature("sets")
		w.AddFeature("same-name-packages-across-files")
	}
	group := make([]int, len(g.units))
	for u := range g.units {
		if nSets > 0 {
			group[u] = rapid.IntRange(0, nSets).Draw(g.rt, "group")
		}
		if sameName {
			if usesExt2(u) {
				group[u] = 1
			} else if usesExt1(u) {
				group[u] = 0
			}
		}
		if len(g.twinUnits) == 2 && u == g.twinUnits[1] {
			group[u] = group[g.twinUnits[0]] // both same-named types are provided in one element list
		}
		if g.units[u].Kind == "bind" && u > 0 {
			group[u] = group[u-1]
			if nSets > 0 && g.want("bind-split-set", "bindsplit", 15) {
				// the binding is given to wire.Build directly, its provider lives in a set
				group[u] = 0
				if group[u-1] == 0 {
					group[u-1] = 1
				}
			}
		}
	}
	nested := nSets == 2 && g.want("nested-sets", "nested", 40)
	inline := nSets >= 1 && !sameName && g.want("inline-sets", "inlineset", 25)
	setNames := []string{"", g.name("Set"), g.name("Set")}
	elemsOf := func(k int) []WElem {
		var es []WElem
		for u := range g.units {
			if g.units[u].Kind == "fieldsof" && len(g.units[u].Fields) == 0 {
				continue // no field is consumed: wire would reject the empty call
			}
			if group[u] == k && (needed[u] || k != 0) {
				es = append(es, g.units[u])
			}
		}
		return es
	}
	nFiles := 1
	if g.o.MaxFiles > 1 && (sameName || g.want("multi-file", "multifile", 35)) {
		nFiles = 2
		w.AddFeature("multi-file")
	}
	spelling := func(f *WFile, label string) {
		if g.want("wire-import-alias", label+"-alias", 12) {
			f.WireAlias = "gw"
		}
		if f.Tag && g.want("wire-legacy-build-tag", label+"-legacytag", 20) {
			f.LegacyTag = true
		}
		if g.want("wire-sets-in-var-block", label+"-varblock", 20) {
			f.VarBlock = true
		}
	}
	w.Files = append(w.Files, WFile{Name: "wire.go", Tag: true})
	spelling(&w.Files[0], "f0")
	if nFiles == 2 {
		w.Files = append(w.Files, WFile{Name: "wire_sets.go", Tag: rapid.Bool().Draw(g.rt, "tag2")})
		spelling(&w.Files[1], "f1")
		if sameName {
			w.Files[1].ExtPlain = []string{"ext2"}
		}
	}
	setFile := nFiles - 1
	var direct []WElem
	direct = append(direct, elemsOf(0)...)
	usedSet := func(k int) bool {
		for u := range g.units {
			if group[u] == k && needed[u] {
				return true
			}
		}
		return false
	}
	for k := 1; k <= nSets; k++ {
		es := elemsOf(k)
		if k == 1 && nested {
			es = append(es, WElem{Kind: "set", Set: setNames[2]})
		}
		used := usedSet(k) || k == 1 && nested && usedSet(2)
		if k == 2 && nested {
			w.Files[setFile].Sets = append(w.Files[setFile].Sets, WSet{Name: setNames[2], Elems: es})
			continue
		}
		if !used {
			// an unused set given to wire.Build is an error in wire; declare it but do not reference it
			w.Files[setFile].Sets = append(w.Files[setFile].Sets, WSet{Name: setNames[k], Elems: es})
			continue
		}
		if inline && k == 1 {
			// inline sets may be nested several levels deep
			depth := rapid.IntRange(1, 3).Draw(g.rt, "inlinedepth")
			el := WElem{Kind: "inline", Inline: es}
			for d := 1; d < depth && len(el.Inline) >= 2; d++ {
				cut := rapid.IntRange(1, len(el.Inline)-1).Draw(g.rt, "inlinecut")
				inner := WElem{Kind: "inline", Inline: append([]WElem{}, el.Inline[cut:]...)}
				// deepen: the tail of the list moves one level down, recursively
				rest := append([]WElem{}, el.Inline[:cut]...)
				if d == 1 {
					el = WElem{Kind: "inline", Inline: append(rest, inner)}
				} else {
					// wrap the whole thing once more
					el = WElem{Kind: "inline", Inline: []WElem{el}}
				}
				w.AddFeature("inline-sets-deep")
			}
			direct = append(direct, el)
			continue
		}
		w.Files[setFile].Sets = append(w.Files[setFile].Sets, WSet{Name: setNames[k], Elems: es})
		direct = append(direct, WElem{Kind: "set", Set: setNames[k]})
	}
	// drawn order of the direct elements (a binding stays right behind its provider)
	type grp struct{ es []WElem }
	var groups []grp
	for _, e := range direct {
		if e.Kind == "bind" && len(groups) > 0 {
			groups[len(groups)-1].es = append(groups[len(groups)-1].es, e)
			continue
		}
		groups = append(groups, grp{[]WElem{e}})
	}
	for i := 0; i < len(groups)-1; i++ {
		j := i + rapid.IntRange(0, len(groups)-1-i).Draw(g.rt, "perm")
		groups[i], groups[j] = groups[j], groups[i]
	}
	direct = direct[:0]
	for _, gr := range groups {
		direct = append(direct, gr.es...)
	}
	// inline wire.NewSet nesting, several levels deep: Build(NewSet(a, NewSet(b, NewSet(c))))
	if len(direct) >= 2 && g.want("inline-sets-deep", "inlinedeep", 30) {
		depth := rapid.IntRange(1, 3).Draw(g.rt, "inlinedepth")
		var nest func(es []WElem, d int) WElem
		nest = func(es []WElem, d int) WElem {
			if d <= 0 || len(es) < 2 {
				return WElem{Kind: "inline", Inline: es}
			}
			var cuts []int
			for c := 1; c < len(es); c++ {
				if es[c].Kind != "bind" {
					cuts = append(cuts, c)
				}
			}
			if len(cuts) == 0 {
				return WElem{Kind: "inline", Inline: es}
			}
			cut := cuts[rapid.IntRange(0, len(cuts)-1).Draw(g.rt, "inlinecut")]
			head := append([]WElem{}, es[:cut]...)
			return WElem{Kind: "inline", Inline: append(head, nest(append([]WElem{}, es[cut:]...), d-1))}
		}
		direct = []WElem{nest(append([]WElem{}, direct...), depth)}
	}
	inj.Elems = direct
	w.Files[0].Injectors = append(w.Files[0].Injectors, inj)
	// a second injector that shares providers with the first one: it requests the result of
	// an inner provider and lists exactly that provider's cone directly (no sets)
	if len(g.units) >= 3 && g.want("second-injector", "secondinj", 35) {
		var cands []int
		for u := range g.units {
			if u != lastU && needed[u] && g.units[u].Kind == "prov" {
				cands = append(cands, u)
			}
		}
		if len(cands) > 0 {
			root := cands[rapid.IntRange(0, len(cands)-1).Draw(g.rt, "secondroot")]
			need2 := map[int]bool{}
			arg2 := map[TypeID]bool{}
			var visit2 func(u int)
			visit2 = func(u int) {
				if need2[u] {
					return
				}
				need2[u] = true
				for _, t := range g.requires[u] {
					if pu, ok := g.unitOf[t]; ok {
						visit2(pu)
					} else {
						arg2[t] = true
					}
				}
			}
			visit2(root)
			consumed2 := map[TypeID]bool{g.provides[root][0]: true}
			for u := range g.units {
				if need2[u] {
					for _, t := range g.requires[u] {
						consumed2[t] = true
					}
				}
			}
			in2 := WInjector{Name: "Init" + letters(1), Want: g.provides[root][0], Panic: g.want("build-in-panic", "buildpanic2", 35)}
			ok := true
			for u := range g.units {
				if !need2[u] {
					continue
				}
				e := g.units[u]
				if e.Kind == "fieldsof" {
					st := g.c.T(e.Struct)
					var keep []string
					for _, n := range e.Fields {
						for _, f := range st.Fields {
							if f.Name == n && consumed2[f.Type] {
								keep = append(keep, n)
							}
						}
					}
					if len(keep) == 0 {
						ok = false
					}
					e.Fields = keep
				}
				if e.Kind == "prov" && g.c.ProvByID(e.Prov).Err {
					in2.Err = true
				}
				in2.Elems = append(in2.Elems, e)
			}
			for _, a := range g.args {
				if arg2[a] {
					in2.Args = append(in2.Args, a)
				}
			}
			if ok && len(in2.Elems) > 0 {
				w.Files[0].Injectors = append(w.Files[0].Injectors, in2)
			}
		}
	}
	if len(w.Files) == 2 && len(w.Files[1].Sets) == 0 {
		w.Files = w.Files[:1]
	}
	_ = fmt.Sprint
}
