// Package band type-checks a scratch user package together with the emitted *_band.go
// files and extracts what the oracles need: type errors with positions, signatures,
// declared identifiers per scope, thread structure.
package band

import (
	"fmt"
	"go/ast"
	"go/build"
	"go/importer"
	"go/parser"
	"go/token"
	"go/types"
	"os"
	"path/filepath"
	"sort"
	"strings"
	"sync"
)

// Importer resolves scratch-module packages from directories, everything else from
// GOROOT source. Shared packages (std, kessoku, errgroup, vrt) are cached per process.
type Importer struct {
	mu     sync.Mutex
	Fset   *token.FileSet
	std    types.ImporterFrom
	shared map[string]*types.Package // cached across cases
	Dirs   map[string]string         // import path -> dir, shared packages
}

func NewImporter(dirs map[string]string) *Importer {
	fset := token.NewFileSet()
	ctx := build.Default
	ctx.CgoEnabled = false
	_ = ctx
	build.Default.CgoEnabled = false
	return &Importer{
		Fset:   fset,
		std:    importer.ForCompiler(fset, "source", nil).(types.ImporterFrom),
		shared: map[string]*types.Package{},
		Dirs:   dirs,
	}
}

// caseImporter adds per-case package directories on top of the shared importer.
type caseImporter struct {
	base  *Importer
	dirs  map[string]string
	local map[string]*types.Package
	errs  *[]TypeErr
}

func (ci *caseImporter) Import(path string) (*types.Package, error) {
	return ci.ImportFrom(path, "", 0)
}

func (ci *caseImporter) ImportFrom(path, dir string, mode types.ImportMode) (*types.Package, error) {
	if path == "unsafe" {
		return types.Unsafe, nil
	}
	if p, ok := ci.local[path]; ok {
		return p, nil
	}
	if d, ok := ci.dirs[path]; ok {
		p, _, _, err := checkDir(ci.base.Fset, path, d, ci, nil, false)
		if p != nil {
			ci.local[path] = p
		}
		return p, err
	}
	b := ci.base
	b.mu.Lock()
	defer b.mu.Unlock()
	if p, ok := b.shared[path]; ok {
		return p, nil
	}
	if d, ok := b.Dirs[path]; ok {
		p, _, _, err := checkDir(b.Fset, path, d, &caseImporter{base: &Importer{Fset: b.Fset, std: b.std, shared: b.shared, Dirs: b.Dirs}, dirs: nil, local: map[string]*types.Package{}}, nil, false)
		if err != nil {
			return nil, err
		}
		b.shared[path] = p
		return p, nil
	}
	return b.std.ImportFrom(path, dir, mode)
}

type TypeErr struct {
	File string // base name
	Line int
	Msg  string
	Band bool // position is inside a *_band.go file
}

func (e TypeErr) String() string { return fmt.Sprintf("%s:%d: %s", e.File, e.Line, e.Msg) }

// SkipBand makes parseDir ignore *_band.go files (to check the user package on its own).
var skipBandKey = "\x00skipband"

func parseDir(fset *token.FileSet, dir string, withTests bool) ([]*ast.File, []string, error) {
	skipBand := false
	if strings.HasSuffix(dir, skipBandKey) {
		skipBand = true
		dir = strings.TrimSuffix(dir, skipBandKey)
	}
	ents, err := os.ReadDir(dir)
	if err != nil {
		return nil, nil, err
	}
	var files []*ast.File
	var names []string
	for _, e := range ents {
		n := e.Name()
		if e.IsDir() || !strings.HasSuffix(n, ".go") {
			continue
		}
		if strings.HasSuffix(n, "_test.go") && !withTests {
			continue
		}
		if skipBand && strings.HasSuffix(n, "_band.go") {
			continue
		}
		f, err := parser.ParseFile(fset, filepath.Join(dir, n), nil, parser.ParseComments|parser.SkipObjectResolution)
		if err != nil {
			return nil, nil, fmt.Errorf("parse %s: %w", n, err)
		}
		// honour a leading "//go:build ignore"-style constraint the cheap way
		skip := false
		for _, cg := range f.Comments {
			if cg.Pos() > f.Package {
				break
			}
			for _, cm := range cg.List {
				if strings.HasPrefix(cm.Text, "//go:build") && (strings.Contains(cm.Text, "ignore") || strings.Contains(cm.Text, "wireinject")) {
					skip = true
				}
			}
		}
		if skip {
			continue
		}
		files = append(files, f)
		names = append(names, n)
	}
	return files, names, nil
}

func checkDir(fset *token.FileSet, path, dir string, imp types.ImporterFrom, errs *[]TypeErr, wantInfo bool) (*types.Package, *types.Info, []*ast.File, error) {
	files, _, err := parseDir(fset, dir, false)
	if err != nil {
		return nil, nil, nil, err
	}
	var info *types.Info
	if wantInfo {
		info = &types.Info{
			Types:  map[ast.Expr]types.TypeAndValue{},
			Defs:   map[*ast.Ident]types.Object{},
			Uses:   map[*ast.Ident]types.Object{},
			Scopes: map[ast.Node]*types.Scope{},
		}
	}
	var firstErr error
	conf := types.Config{
		Importer: imp,
		Error: func(err error) {
			if firstErr == nil {
				firstErr = err
			}
			if errs != nil {
				if te, ok := err.(types.Error); ok {
					pos := te.Fset.Position(te.Pos)
					base := filepath.Base(pos.Filename)
					*errs = append(*errs, TypeErr{File: base, Line: pos.Line, Msg: te.Msg, Band: strings.HasSuffix(base, "_band.go")})
				} else {
					*errs = append(*errs, TypeErr{Msg: err.Error()})
				}
			}
		},
	}
	pkg, _ := conf.Check(path, fset, files, info)
	if errs == nil && firstErr != nil {
		return pkg, info, files, firstErr
	}
	return pkg, info, files, nil
}

// Analysis is the result of checking the user package.
type Analysis struct {
	Fset   *token.FileSet
	Pkg    *types.Package
	Info   *types.Info
	Files  []*ast.File
	Errors []TypeErr
	Funcs  map[string]*Func // functions declared in *_band.go files
	Order  []string
}

type Func struct {
	Name    string
	File    string
	Decl    *ast.FuncDecl
	Sig     *types.Signature
	Threads int // 1 + number of eg.Go calls
	Waits   int // channel waits (receive from chan struct{} or select)
	Closes  int
	HasEgWait bool
	Lines   int
}

// Load type-checks the package in dir (import path pkgPath); caseDirs maps the case's
// other packages to directories.
func Load(base *Importer, pkgPath, dir string, caseDirs map[string]string) (*Analysis, error) {
	a := &Analysis{Fset: base.Fset, Funcs: map[string]*Func{}}
	ci := &caseImporter{base: base, dirs: caseDirs, local: map[string]*types.Package{}}
	pkg, info, files, err := checkDir(base.Fset, pkgPath, dir, ci, &a.Errors, true)
	if err != nil {
		return nil, err
	}
	a.Pkg, a.Info, a.Files = pkg, info, files
	for _, f := range files {
		fname := filepath.Base(base.Fset.Position(f.Package).Filename)
		if !strings.HasSuffix(fname, "_band.go") {
			continue
		}
		for _, d := range f.Decls {
			fd, ok := d.(*ast.FuncDecl)
			if !ok || fd.Recv != nil {
				continue
			}
			fn := &Func{Name: fd.Name.Name, File: fname, Decl: fd, Threads: 1}
			if obj, ok := info.Defs[fd.Name].(*types.Func); ok && obj != nil {
				fn.Sig, _ = obj.Type().(*types.Signature)
			}
			ast.Inspect(fd.Body, func(n ast.Node) bool {
				switch x := n.(type) {
				case *ast.CallExpr:
					if sel, ok := x.Fun.(*ast.SelectorExpr); ok {
						if id, ok := sel.X.(*ast.Ident); ok && id.Name == "eg" {
							switch sel.Sel.Name {
							case "Go":
								fn.Threads++
							case "Wait":
								fn.HasEgWait = true
							}
						}
					}
					if id, ok := x.Fun.(*ast.Ident); ok && id.Name == "close" {
						fn.Closes++
					}
				case *ast.UnaryExpr:
					if x.Op == token.ARROW {
						fn.Waits++
					}
				}
				return true
			})
			fn.Lines = base.Fset.Position(fd.End()).Line - base.Fset.Position(fd.Pos()).Line
			if _, dup := a.Funcs[fn.Name]; !dup {
				a.Order = append(a.Order, fn.Name)
			}
			a.Funcs[fn.Name] = fn
		}
	}
	return a, nil
}

// BandErrors returns the type errors that count against the generator: those located
// in a band file, and redeclaration errors in user files that involve a band file.
func (a *Analysis) BandErrors() []TypeErr {
	var out []TypeErr
	for _, e := range a.Errors {
		if e.Band {
			out = append(out, e)
		} else if strings.Contains(e.Msg, "redeclared") || strings.Contains(e.Msg, "other declaration of") {
			out = append(out, e)
		}
	}
	return out
}

// UserErrors returns type errors located only in user files (harness bug if any).
func (a *Analysis) UserErrors() []TypeErr {
	var out []TypeErr
	for _, e := range a.Errors {
		if !e.Band && !strings.Contains(e.Msg, "redeclared") && !strings.Contains(e.Msg, "other declaration of") {
			out = append(out, e)
		}
	}
	return out
}

// HelperResult returns the result type of helper function name (e.g. "mk_12").
func (a *Analysis) HelperResult(name string) types.Type {
	if a.Pkg == nil {
		return nil
	}
	obj := a.Pkg.Scope().Lookup(name)
	fn, ok := obj.(*types.Func)
	if !ok {
		return nil
	}
	sig := fn.Type().(*types.Signature)
	if sig.Results().Len() == 0 {
		return nil
	}
	return sig.Results().At(0).Type()
}

func IsContext(t types.Type) bool {
	n, ok := types.Unalias(t).(*types.Named) // type Ctx = context.Context is the same type
	return ok && n.Obj().Pkg() != nil && n.Obj().Pkg().Path() == "context" && n.Obj().Name() == "Context"
}

func IsError(t types.Type) bool {
	return types.Identical(t, types.Universe.Lookup("error").Type())
}

// ScopeDecls lists, for function fn, every identifier declared in the function's
// scopes (parameters, var blocks, :=, range vars), grouped by scope.
type Decl struct {
	Name  string
	Line  int
	Scope *types.Scope
	Kind  string
}

func (a *Analysis) Decls(fn *Func) []Decl {
	var out []Decl
	ast.Inspect(fn.Decl, func(n ast.Node) bool {
		id, ok := n.(*ast.Ident)
		if !ok {
			return true
		}
		obj := a.Info.Defs[id]
		if obj == nil || id.Name == "_" {
			return true
		}
		if _, isFunc := obj.(*types.Func); isFunc {
			return true
		}
		if _, isLabel := obj.(*types.Label); isLabel {
			return true
		}
		if v, isVar := obj.(*types.Var); isVar && v.IsField() {
			return true
		}
		out = append(out, Decl{Name: id.Name, Line: a.Fset.Position(id.Pos()).Line, Scope: obj.Parent(), Kind: fmt.Sprintf("%T", obj)})
		return true
	})
	sort.SliceStable(out, func(i, j int) bool { return out[i].Line < out[j].Line })
	return out
}

// UserPackageAloneOK type-checks the user package WITHOUT the emitted files and reports
// whether it is free of errors: if it is, every error seen with the emitted files present is
// caused by them, wherever the type checker happens to report it.
func UserPackageAloneOK(base *Importer, pkgPath, dir string, caseDirs map[string]string) bool {
	var errs []TypeErr
	ci := &caseImporter{base: base, dirs: caseDirs, local: map[string]*types.Package{}}
	_, _, _, err := checkDir(base.Fset, pkgPath, dir+skipBandKey, ci, &errs, false)
	return err == nil && len(errs) == 0
}

// PromoteUserErrors marks all errors as caused by the emitted files.
func (a *Analysis) PromoteUserErrors() {
	for i := range a.Errors {
		a.Errors[i].Band = true
	}
}
