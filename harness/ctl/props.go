package main

import "time"

var props = map[string]propCfg{
	"C16": {
		Level: "exploration",
		Rule: "agent x flag-form x prior-state x umask matrix enumerated, plus rapid-drawn install histories (several agents into one HOME/cwd); expected paths parsed from README.md, expected tree read from internal/llmsetup/skills on disk; non-trivial = run whose destination had a prior state other than 'absent', or a history of >=2 installs, or a --path form; distinct = hash of (agent, flags, prior, umask, history)",
		Assumptions: []string{"README.md 'Supported agents' and 'Default installation paths' are the documentation of record", "skill tree on disk in the snapshot equals the embedded tree (go:embed of the same directory)", "Linux, ordinary user-writable scratch directories on tmpfs"},
		QuickShards: 4, QuickChecks: 40, ThoroughShards: 16, ThoroughChecks: 400,
		QuickBudget: 60 * time.Second, ThoroughBudget: 8 * time.Minute,
	},
}
