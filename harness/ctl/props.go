package main

import "time"

var props = map[string]propCfg{
	"C15": {
		Level: "fault_enumeration",
		Rule: "the real CLI runs under strace -f -y with one injected fault per run: SIGKILL on entry to the k-th filesystem syscall (= process death after step k-1) or an errno returned by it (ENOSPC/EIO/EACCES/EPERM/EXDEV/EROFS/EMFILE/EDQUOT as applicable), for every destination syscall k of a dry run (mkdirat openat write fsync close fchmodat renameat per file), on a fresh and on a previously installed destination - enumerated completely in every run; rapid draws longer histories (seed-old / crash / fail / ok sequences, agent, --user/--path). Invariant after every step: each destination file is absent, byte- and mode-identical to before, or the new content with mode 0644; after an error: exit!=0, message, no .tmp-* left, current file intact; a final fault-free run completes the installation. The actual fault point is read back from the strace log. non-trivial/distinct = (kind, syscall, point, errno) actually hit",
		Assumptions: []string{"crash = process death (SIGKILL), not power loss: directory durability is outside the property", "a step is one syscall; partial writes inside one write(2) are not simulated", "strace per-thread invocation counters: misfires are counted and judged by what was actually injected"},
		QuickShards: 8, QuickChecks: 12, ThoroughShards: 16, ThoroughChecks: 150,
		QuickBudget: 75 * time.Second, ThoroughBudget: 9 * time.Minute,
	},
	"C12": {
		Level: "exploration",
		Rule: "two layers. (1) allocator state machine (rapid t.Repeat, in-package test overlaid on a scratch copy of the repository): reserve(user names) then GetName/Get/GetChannel/re-reserve over a small colliding alphabet (foo foo0 foo00 fooCh fooCh0 err err0 ctx ctx0 ... keywords); model = set of reserved or handed-out names; invariant: every returned name is new, not a keyword/predeclared identifier, not a user name. (2) end to end: declarations with the naming adversary through the real CLI; in the type-checked output every generated identifier per scope must be unique, not a reserved word, not a user package-level name, and no identifier inside a copied provider expression may resolve to a generated local. non-trivial = history requests one base >=2 times and a base that looks suffixed; e2e case with >=2 entities sharing a base name",
		Assumptions: []string{"the hard-coded locals eg/ch/zero/err are judged by the compiler (same-scope clash) and by the capture check, not by the package-level-name rule"},
		QuickShards: 12, QuickChecks: 50, ThoroughShards: 12, ThoroughChecks: 1200,
		QuickBudget: 75 * time.Second, ThoroughBudget: 9 * time.Minute,
	},
	"C11": {
		Level: "exploration",
		Rule: "rapid state machine over a working directory: generate (under a drawn GOMAXPROCS in 1..16, separate process => fresh map seeds), truncate / empty / garbage / foreign-content / delete / touch the output file, edit the declaration (toggle Async, rename injector, reorder providers); model = clean-room output of the current sources in a fresh directory; invariant after every generate: byte equality with the model. Naming adversary on (injector names equal to generated variable names). Plus the fixed corpus examples/*: regenerated under GOMAXPROCS 1/4/16 and compared with the checked-in files (exhaustive). non-trivial = a generate that ran with a stale/damaged/foreign output present, or >=2 distinct GOMAXPROCS values in one history",
		Assumptions: []string{"clean-room run is the specification of 'pure function of the input package'", "process-level randomness = Go map seeds and scheduler of separate CLI processes"},
		QuickShards: 16, QuickChecks: 25, ThoroughShards: 16, ThoroughChecks: 500,
		QuickBudget: 75 * time.Second, ThoroughBudget: 9 * time.Minute,
	},
	"C01": {
		Level: "exploration",
		Rule: "rapid-generated declarations with Async providers x provider-granular schedules owned by the check inside a testing/synctest bubble (starve(P) for every needed provider, FIFO, LIFO, drawn choice lists) plus free-running -race executions with drawn latency vectors; oracle: exit(P) precedes enter(Q) for every model edge, every call carries exactly the argument hashes the reference model predicts, result equals reference, no race report touching *_band.go. non-trivial = emitted function has >=2 threads and >=1 cross-thread wait (measured on the emitted file); distinct = case hash",
		Assumptions: []string{"schedules are owned at provider granularity; interleavings between two statements of emitted code are reached only by repetition and the -race runs", "free-running recorder uses unsynchronised per-provider slots so it adds no happens-before edges"},
		QuickShards: 16, QuickChecks: 10, ThoroughShards: 16, ThoroughChecks: 150,
		QuickBudget: 80 * time.Second, ThoroughBudget: 10 * time.Minute,
	},
	"C03": {
		Level: "exploration",
		Rule: "as C01 (fault-free plans: starve(P) for every provider, FIFO, LIFO, hold-async, drawn choices); oracle: controller never reaches 'injector not returned and nothing runnable' (exact quiescence via synctest.Wait, no timeouts), no panic / close of closed channel, no provider or goroutine of the emitted file alive at return, no goroutine blocked after return; plus structural invariants of the emitted function (eg.Wait before the final return, every completion channel closed at exactly one site and waited for). non-trivial = >=2 threads",
		Assumptions: []string{"liveness is decided as safety at quiescence: with every provider released and every goroutine durably blocked, 'has not returned' is final"},
		QuickShards: 16, QuickChecks: 12, ThoroughShards: 16, ThoroughChecks: 200,
		QuickBudget: 80 * time.Second, ThoroughBudget: 10 * time.Minute,
	},
	"C05": {
		Level: "exploration",
		Rule: "rapid-generated declarations with several input-free Async providers among other Async/sync providers and arguments, declaration order permuted; schedule policy hold-async (only non-Async providers are released) constructs the witness: at the first quiescent state where only Async providers are inside their functions, ALL needed input-free Async providers must be among them. non-trivial = >=2 needed input-free Async providers and >=1 other needed unit",
		Assumptions: []string{"the constructed quiescent state is itself the required execution (existential decided constructively per program)"},
		QuickShards: 16, QuickChecks: 14, ThoroughShards: 16, ThoroughChecks: 250,
		QuickBudget: 80 * time.Second, ThoroughBudget: 10 * time.Minute,
	},
	"C06": {
		Level: "fault_enumeration",
		Rule: "rapid-generated declarations with fallible providers x fault sets (every single needed fallible provider, drawn pairs, all) x schedules (FIFO, LIFO, starve(failing), drawn) x repetitions (select tie-breaks); oracle: injector returns, error non-nil and identical to an error a provider actually returned in that run, no provider downstream of a failed one entered. non-trivial = failing provider in a multi-thread injector or >=2 providers failed",
		Assumptions: []string{"single-fault enumeration per needed fallible provider is complete per generated program; multi-fault sets are sampled"},
		QuickShards: 16, QuickChecks: 10, ThoroughShards: 16, ThoroughChecks: 150,
		QuickBudget: 80 * time.Second, ThoroughBudget: 10 * time.Minute,
	},
	"C07": {
		Level: "fault_enumeration",
		Rule: "rapid-generated declarations with >=1 Async provider x cancellation before the call and after every release of FIFO/LIFO/drawn schedules x repetitions; every gated provider keeps being released ('every provider returns'); oracle: injector returns (exact quiescence), and whenever it reports no error the value equals the reference. non-trivial = cancellation while >=1 provider is running and >=1 thread is blocked in one of the injector's waits",
		Assumptions: []string{"cancellation points are provider-granular (between releases)"},
		QuickShards: 16, QuickChecks: 8, ThoroughShards: 16, ThoroughChecks: 120,
		QuickBudget: 80 * time.Second, ThoroughBudget: 10 * time.Minute,
	},
	"C08": {
		Level: "fault_enumeration",
		Rule: "C06 fault plans + C07 cancellation plans + fault-free plans; after the injector returns every still-running provider is released, quiescence is reached and goroutine stacks of the bubble are inspected: none may remain blocked in the emitted file. non-trivial = injector returned early (error) while another thread was still alive",
		Assumptions: []string{"'will exit without further action by the caller' = exits once running providers return; the caller's context is NOT cancelled by the check"},
		QuickShards: 16, QuickChecks: 8, ThoroughShards: 16, ThoroughChecks: 120,
		QuickBudget: 80 * time.Second, ThoroughBudget: 10 * time.Minute,
	},
	"C04": {
		Level: "exploration",
		Rule: "rapid-generated declarations over the full type universe (named/pointer/basic/named-basic/slice/array/map/chan/func/anonymous struct/interface/external-package/aliased-import types) x naming adversary x sync/async x 1..4 injectors per file x 1..3 files per invocation (one CLI call or one per file); oracle = go/types type-check of user package + emitted files (unused/undeclared/redeclared identifiers and imports, type mismatches); only errors located in or caused by *_band.go count. non-trivial = >=2 injectors or composite/external/adversarial names; distinct = case hash",
		Assumptions: []string{"go/types accepts exactly what the compiler accepts for these programs (cross-checked with go vet in the thorough tier)", "alias types and dot imports are outside the generated universe"},
		QuickShards: 16, QuickChecks: 60, ThoroughShards: 16, ThoroughChecks: 1500,
		QuickBudget: 75 * time.Second, ThoroughBudget: 9 * time.Minute,
	},
	"C09": {
		Level: "exploration",
		Rule: "valid rapid-generated declarations, 65% of them with exactly one planted defect (back edge of any length through plain/Bind/Struct-field/second-result, duplicate supplier via provider/Value/Struct field/Bind, orphan Struct) at a drawn position, x prior state of the output file (absent/older output/unrelated content with old mtime), one CLI call over all files; oracle: invalid => exit!=0, diagnostic names only types on the planted SCC / the duplicated / orphan type, offending output file byte- and mtime-identical; valid => exit 0 and exactly one function per declaration. non-trivial = plant not adjacent to the requested provider or routed through Bind/field/second result or in a later file; valid cases with >=2 injectors or prior output",
		Assumptions: []string{"the reference model decides validity (cycle/duplicate/orphan) independently of graph.go", "the same provider reached twice through two Sets is generated neither as valid nor invalid"},
		QuickShards: 16, QuickChecks: 70, ThoroughShards: 16, ThoroughChecks: 2000,
		QuickBudget: 75 * time.Second, ThoroughBudget: 9 * time.Minute,
	},
	"C10": {
		Level: "exploration",
		Rule: "rapid-generated valid declarations stressing context.Context parameters at any position, duplicate parameter types, unneeded Async/fallible providers, composite/external argument types, several injectors; oracle = go/types signature of the emitted function vs the reference rule (name, parameter multiset by types.Identical, context rule and position, result, error result). non-trivial = >=1 argument and (context involved or an unneeded Async/fallible provider present)",
		Assumptions: []string{"reference signature rule is derived from the property statement", "cases whose output does not type-check are routed to C04 and counted as discards"},
		QuickShards: 16, QuickChecks: 60, ThoroughShards: 16, ThoroughChecks: 1500,
		QuickBudget: 75 * time.Second, ThoroughBudget: 9 * time.Minute,
	},
	"C02": {
		Level: "exploration",
		Rule: "rapid-generated Inject declarations (forward-constructed acyclic provider DAGs over a generated type universe; Bind, Struct expansion, multi-value providers, Value, nested/inline/shared Sets, unneeded providers, literal and external-package providers, several injectors/files) executed through the real CLI's output under FIFO/LIFO/drawn schedules with two argument vectors; oracle = independent sequential reference interpreter (value hash and multiset of (provider, argument hashes) calls). non-trivial = injector with >=3 needed units and at least one of Bind/Struct/multi-value/Value/Set nesting>=2/unneeded provider; distinct = hash of the whole case",
		Assumptions: []string{"values are observed through 31-bit hashes (types narrower than 31 bits are compared after squashing)", "features that trigger known findings of C04/C09 are gated off and counted under excluded_by_construction"},
		QuickShards: 16, QuickChecks: 14, ThoroughShards: 16, ThoroughChecks: 300,
		QuickBudget: 75 * time.Second, ThoroughBudget: 9 * time.Minute,
	},
	"C16": {
		Level: "exploration",
		Rule: "agent x flag-form x prior-state x umask matrix enumerated, plus rapid-drawn install histories (several agents into one HOME/cwd); expected paths parsed from README.md, expected tree read from internal/llmsetup/skills on disk; non-trivial = run whose destination had a prior state other than 'absent', or a history of >=2 installs, or a --path form; distinct = hash of (agent, flags, prior, umask, history)",
		Assumptions: []string{"README.md 'Supported agents' and 'Default installation paths' are the documentation of record", "skill tree on disk in the snapshot equals the embedded tree (go:embed of the same directory)", "Linux, ordinary user-writable scratch directories on tmpfs"},
		QuickShards: 4, QuickChecks: 40, ThoroughShards: 16, ThoroughChecks: 400,
		QuickBudget: 60 * time.Second, ThoroughBudget: 8 * time.Minute,
	},
}
