package main

import (
	"fmt"
	"os"
	"path/filepath"
	"time"

	"verifharness/mat"
	"verifharness/pipe"
	"verifharness/spec"
)

// warmCache populates the base build cache ($VERIF_GOCACHE, set by setup.sh) with everything
// the checks rebuild over and over: the CLI's dependencies, google/wire, and the standard
// library + kessoku + errgroup + vrt objects of an inner test binary, plain and -race.
func warmCache() int {
	snap, err := pipe.NewSnapshot()
	if err != nil {
		fmt.Fprintln(os.Stderr, "warm: snapshot:", err)
		return 1
	}
	defer snap.Close()
	if err := buildWire(snap); err != nil {
		fmt.Fprintln(os.Stderr, "warm: wire:", err)
	}
	vrt := filepath.Join(snap.Root, "vrtmod")
	if err := mat.WriteVRT(vrt); err != nil {
		fmt.Fprintln(os.Stderr, "warm: vrt:", err)
		return 1
	}
	cs := &spec.Case{Types: []spec.Type{{ID: 0, Kind: "none"}, {ID: 1, Kind: spec.KStruct, Name: "Taa"}, {ID: 2, Kind: spec.KPtr, Elem: 1}, {ID: 3, Kind: spec.KStruct, Name: "Tab"}, {ID: 4, Kind: spec.KPtr, Elem: 3}},
		Provs: []spec.Prov{{ID: 1, Name: "NewTaa", Form: "func", Results: []spec.TypeID{2}, Err: true}, {ID: 2, Name: "NewTab", Form: "func", Params: []spec.TypeID{2}, Results: []spec.TypeID{4}}},
		Files: []spec.File{{Name: "inject_a.go", Injectors: []spec.Injector{{Name: "Initaa", Want: 4, Elems: []spec.Elem{{Kind: "prov", Prov: 1, Async: true}, {Kind: "prov", Prov: 2, Async: true}}}}}}}
	root := filepath.Join(snap.Root, "warm")
	l, err := mat.Write(cs, filepath.Join(root, "m"), mat.Env{KessokuSrc: snap.Src, VRTDir: vrt, WithWire: false})
	if err != nil {
		fmt.Fprintln(os.Stderr, "warm: materialize:", err)
		return 1
	}
	r := pipe.Run(pipe.Cmd{Dir: l.AppDir, Args: []string{snap.CLI, "inject_a.go"}, Timeout: 5 * time.Minute})
	if r.Exit != 0 {
		fmt.Fprintln(os.Stderr, "warm: generator:", r.Stderr)
		return 1
	}
	glue := mat.GlueSource(cs, []mat.AdapterSpec{{Name: "Initaa", Params: []spec.TypeID{spec.CtxType}, Result: 4, HasErr: true}})
	_ = os.WriteFile(filepath.Join(l.AppDir, "inner_test.go"), []byte(glue), 0o644)
	for _, args := range [][]string{
		{"go", "test", "-c", "-vet=off", "-o", filepath.Join(root, "inner.test"), "./" + mat.UserPkg},
		{"go", "test", "-c", "-vet=off", "-race", "-o", filepath.Join(root, "inner-race.test"), "./" + mat.UserPkg},
	} {
		r := pipe.Run(pipe.Cmd{Dir: filepath.Join(root, "m"), Args: args, Timeout: 15 * time.Minute})
		if r.Exit != 0 {
			fmt.Fprintln(os.Stderr, "warm: inner build:", r.Stderr)
			return 1
		}
	}
	// the wire-enabled module variant (C13/C14)
	w := &spec.WCase{Spec: cs, Files: []spec.WFile{{Name: "wire.go", Tag: true, Injectors: []spec.WInjector{{Name: "Initaa", Want: 4, Err: true, Elems: []spec.WElem{{Kind: "prov", Prov: 1}, {Kind: "prov", Prov: 2}}}}}}}
	wl, err := mat.WriteWire(w, filepath.Join(root, "w", "m"), mat.Env{KessokuSrc: snap.Src, VRTDir: vrt})
	if err == nil {
		wire := filepath.Join(snap.Root, "wire")
		_ = pipe.Run(pipe.Cmd{Dir: wl.AppDir, Args: []string{wire, "gen", "."}, Timeout: 5 * time.Minute})
		_ = pipe.Run(pipe.Cmd{Dir: wl.AppDir, Args: []string{snap.CLI, "migrate"}, Timeout: 5 * time.Minute})
		_ = pipe.Run(pipe.Cmd{Dir: filepath.Join(root, "w", "m"), Args: []string{"go", "build", "./..."}, Timeout: 10 * time.Minute})
	}
	fmt.Println("warm cache ok")
	return 0
}
