// Command verifctl is the driver behind /verif/check: snapshot /repo, build the CLI from
// the snapshot, run the property's shards (bin/verif.test), merge their reports into
// evidence/<id>.json, print KNOWN-FINDING / VIOLATION lines, exit 0 / 1 / 2.
package main

import (
	"encoding/json"
	"fmt"
	"os"
	"os/exec"
	"path/filepath"
	"sort"
	"strconv"
	"strings"
	"sync"
	"syscall"
	"time"

	"verifharness/ev"
	"verifharness/kf"
	"verifharness/pipe"
)

type propCfg struct {
	Level       string
	Rule        string
	Assumptions []string
	// shards, checks per shard
	QuickShards, QuickChecks       int
	ThoroughShards, ThoroughChecks int
	QuickBudget, ThoroughBudget    time.Duration // soft wall budget per shard (cases after it are skipped and counted)
	Exhaustive                     bool
}

func verifDir() string {
	if d := os.Getenv("VERIF_DIR"); d != "" {
		return d
	}
	return "/verif"
}

func main() {
	os.Exit(run())
}

func run() int {
	args := os.Args[1:]
	if len(args) < 1 {
		fmt.Fprintln(os.Stderr, "usage: check <Cxx> [quick|thorough] | <Cxx> --replay <file>")
		return 2
	}
	if args[0] == "--warm-cache" {
		return warmCache()
	}
	id := args[0]
	cfg, ok := props[id]
	if !ok {
		fmt.Fprintf(os.Stderr, "unknown property %s\n", id)
		return 2
	}
	tier := os.Getenv("VERIF_TIER")
	replay := ""
	for i := 1; i < len(args); i++ {
		switch args[i] {
		case "quick", "thorough":
			tier = args[i]
		case "--replay":
			if i+1 < len(args) {
				replay = args[i+1]
				i++
			}
		}
	}
	if tier != "thorough" {
		tier = "quick"
	}
	seed := int64(1)
	if s := os.Getenv("VERIF_SEED"); s != "" {
		if v, err := strconv.ParseInt(s, 10, 64); err == nil {
			seed = v
		}
	}
	if seed == 0 {
		seed = 0x5eed
	}
	if seed < 0 {
		seed = -seed
	}
	t0 := time.Now()

	// Build caches: every run works on hard-link clones of the warm base cache built by
	// setup.sh and removes them afterwards, so the Go build cache cannot grow without bound
	// (one case adds 1-5 MB of objects that are never needed again).
	vd0 := verifDir()
	cacheBase := filepath.Join(vd0, "out", "gocache-base")
	runCache := filepath.Join(vd0, "out", fmt.Sprintf("gocache-run-%d", os.Getpid()))
	cleanStaleRunCaches(filepath.Join(vd0, "out"))
	_ = os.MkdirAll(runCache, 0o755)
	defer os.RemoveAll(runCache)
	if err := pipe.CloneCache(cacheBase, filepath.Join(runCache, "ctl")); err == nil {
		os.Setenv("VERIF_GOCACHE", filepath.Join(runCache, "ctl"))
	}

	snap, err := pipe.NewSnapshot()
	if err != nil {
		fmt.Fprintf(os.Stderr, "INCONCLUSIVE: snapshot/build of /repo failed: %v\n", err)
		return 2
	}
	defer snap.Close()
	if id == "C13" || id == "C14" {
		if err := buildWire(snap); err != nil {
			fmt.Fprintf(os.Stderr, "INCONCLUSIVE: cannot build google/wire offline: %v\n", err)
			return 2
		}
	}

	vd := verifDir()
	testBin := filepath.Join(vd, "bin", "verif.test")
	if _, err := os.Stat(testBin); err != nil {
		fmt.Fprintf(os.Stderr, "INCONCLUSIVE: %s missing; run setup_cmd\n", testBin)
		return 2
	}
	outDir := filepath.Join(vd, "out", id)
	if replay != "" {
		// a replay never touches out/<id>: the file being replayed usually lives there
		outDir = filepath.Join(vd, "out", id+"-replay")
		_ = os.RemoveAll(outDir)
		_ = os.MkdirAll(outDir, 0o755)
		return runReplay(id, testBin, snap, replay, outDir)
	}
	_ = os.RemoveAll(outDir)
	_ = os.MkdirAll(outDir, 0o755)

	shards, checks, budget := cfg.QuickShards, cfg.QuickChecks, cfg.QuickBudget
	if tier == "thorough" {
		shards, checks, budget = cfg.ThoroughShards, cfg.ThoroughChecks, cfg.ThoroughBudget
	}
	if v := os.Getenv("VERIF_SHARDS"); v != "" {
		shards, _ = strconv.Atoi(v)
	}
	if v := os.Getenv("VERIF_CHECKS"); v != "" {
		checks, _ = strconv.Atoi(v)
	}
	if budget == 0 {
		budget = 90 * time.Second
	}

	total := ev.NewReport(id)
	inconclusive := ""
	violations := []ev.Failure{}
	knownLines := map[string]string{}

	// 1. pinned witnesses (known findings must still reproduce; fixed ones must pass)
	kfs, err := kf.Load(filepath.Join(vd, "known_findings.json"))
	if err != nil {
		fmt.Fprintf(os.Stderr, "INCONCLUSIVE: known_findings.json: %v\n", err)
		return 2
	}
	// 2. shards
	type shardRes struct {
		rep  *ev.Report
		exit int
		log  string
		err  string
	}
	results := make([]shardRes, shards+1)
	var wg sync.WaitGroup
	sem := make(chan struct{}, 16)
	launch := func(i int, runName string, nchecks int, extraEnv ...string) {
		defer wg.Done()
		sem <- struct{}{}
		defer func() { <-sem }()
		sdir := filepath.Join(outDir, fmt.Sprintf("shard%02d", i))
		_ = os.MkdirAll(sdir, 0o755)
		scratch, _ := os.MkdirTemp(pipe.ScratchRoot(), "verif-shard-")
		defer os.RemoveAll(scratch)
		sseed := uint64(seed)*1000003 + uint64(i)*7919 + 1
		hard := budget*3 + 3*time.Minute
		shrink := "25s"
		if tier == "thorough" {
			shrink = "90s"
		}
		args := []string{testBin, "-test.run", "^" + runName + "$", "-test.v", "-test.timeout", (hard + time.Minute).String(),
			"-rapid.checks", strconv.Itoa(nchecks), "-rapid.seed", strconv.FormatUint(sseed, 10),
			"-rapid.shrinktime", shrink, "-rapid.nofailfile"}
		shardCache := filepath.Join(runCache, fmt.Sprintf("shard%02d", i))
		_ = pipe.CloneCache(cacheBase, shardCache)
		env := pipe.Env(append([]string{
			"VERIF_GOCACHE=" + shardCache, "VERIF_GOCACHE_BASE=" + cacheBase,
			"VERIF_SNAP=" + snap.Root, "VERIF_OUT=" + sdir, "VERIF_TIER=" + tier,
			"VERIF_SHARD=" + strconv.Itoa(i), "VERIF_SHARD_SEED=" + strconv.FormatUint(sseed, 10),
			"VERIF_SCRATCH_DIR=" + scratch, "VERIF_DIR=" + vd,
			"VERIF_BUDGET=" + budget.String(),
		}, extraEnv...)...)
		r := pipe.Run(pipe.Cmd{Dir: sdir, Env: env, Args: args, Timeout: hard + 2*time.Minute})
		_ = os.WriteFile(filepath.Join(sdir, "log.txt"), []byte(r.Stdout+"\n--- stderr ---\n"+r.Stderr), 0o644)
		res := shardRes{exit: r.Exit, log: r.Stdout + r.Stderr}
		if r.TimedOut {
			res.err = "timeout"
		} else if r.Err != nil {
			res.err = r.Err.Error()
		}
		rep, err := ev.ReadReport(filepath.Join(sdir, "report.json"))
		if err == nil {
			res.rep = rep
		} else if res.err == "" {
			res.err = "no report: " + err.Error()
		}
		results[i] = res
	}
	// shard 0 = witnesses/fixed corpus for the property (TestWitness<id>), others = random shards
	wg.Add(1)
	go launch(0, "TestWitness"+id, 1)
	for i := 1; i <= shards; i++ {
		wg.Add(1)
		go launch(i, "Test"+id, checks)
	}
	wg.Wait()

	for i, r := range results {
		if r.rep != nil {
			ev.Merge(total, r.rep)
		}
		if r.err != "" && (r.rep == nil || len(r.rep.Failures) == 0) {
			inconclusive = fmt.Sprintf("shard %d: %s", i, r.err)
			continue
		}
		if r.rep != nil && len(r.rep.Failures) > 0 {
			// keep the last failure (the shrunk one) per shard
			f := r.rep.Failures[len(r.rep.Failures)-1]
			violations = append(violations, f)
		} else if r.exit != 0 {
			// test failed without a recorded failure: harness problem, not a violation
			tail := r.log
			if len(tail) > 1500 {
				tail = tail[len(tail)-1500:]
			}
			inconclusive = fmt.Sprintf("shard %d exited %d without a recorded failure:\n%s", i, r.exit, tail)
		}
	}
	for kid, n := range total.Known {
		if n > 0 {
			if e := kfs.ByID(kid); e != nil && e.Status == "open" {
				knownLines[kid] = fmt.Sprintf("KNOWN-FINDING: property=%s %s [%s, reproduced %d times this run]", id, e.Title, e.ID, n)
			}
		}
	}
	keys := make([]string, 0, len(knownLines))
	for k := range knownLines {
		keys = append(keys, k)
	}
	sort.Strings(keys)
	for _, k := range keys {
		fmt.Println(knownLines[k])
	}
	// open findings of this property whose witness did not reproduce
	for _, e := range kfs.Entries {
		if e.Property == id && e.Status == "open" && total.Known[e.ID] == 0 {
			fmt.Printf("NOTE: known finding %s did not reproduce in this run (apparently fixed?)\n", e.ID)
		}
	}

	wall := time.Since(t0).Seconds()
	cov := map[string]any{
		"evaluations":         total.Evaluations,
		"distinct_nontrivial": len(total.Nontrivial),
		"rule":                cfg.Rule,
		"samples":             total.Samples,
		"property_invocations_incl_shrinking": total.Cases,
		"features":            total.Features,
		"excluded_by_construction": total.Excluded,
		"discards":            total.Discards,
		"known_finding_hits":  total.Known,
		"shards":              shards,
		"checks_per_shard":    checks,
	}
	for k, v := range total.Extra {
		if f, ok := v.(float64); ok && f == float64(int64(f)) {
			cov[k] = int64(f) // counters travel as floats through the shard reports
		} else {
			cov[k] = v
		}
	}
	if cfg.Exhaustive {
		cov["exhaustive_subspace"] = true
	}
	if inconclusive != "" {
		cov["inconclusive"] = inconclusive
	}
	if len(total.Samples) == 0 {
		cov["samples"] = []any{}
	}
	e := &ev.Evidence{PropertyID: id, Tier: tier, Seed: seed, Level: cfg.Level, Coverage: cov, Assumptions: cfg.Assumptions, WallS: wall, Violations: len(violations)}
	evDir := filepath.Join(vd, "evidence")
	if r := os.Getenv("VERIF_REPO"); r != "" && r != "/repo" {
		// development runs against a patched scratch tree never overwrite the evidence of /repo
		evDir = filepath.Join(vd, "out", "evidence-other-tree")
		_ = os.MkdirAll(evDir, 0o755)
	}
	if err := ev.WriteEvidence(filepath.Join(evDir, id+".json"), e); err != nil {
		fmt.Fprintf(os.Stderr, "cannot write evidence: %v\n", err)
		return 2
	}
	fmt.Printf("%s %s seed=%d: cases=%d evaluations=%d distinct_nontrivial=%d violations=%d wall=%.1fs\n", id, tier, seed, total.Cases, total.Evaluations, len(total.Nontrivial), len(violations), wall)
	if len(violations) > 0 {
		seen := map[string]bool{}
		for _, v := range violations {
			if seen[v.Replay] {
				continue
			}
			seen[v.Replay] = true
			fmt.Printf("VIOLATION property=%s replay=%s\n", id, v.Replay)
			msg := v.Msg
			if len(msg) > 2000 {
				msg = msg[:2000] + "…"
			}
			fmt.Printf("  %s\n", strings.ReplaceAll(msg, "\n", "\n  "))
		}
		return 1
	}
	if inconclusive != "" {
		fmt.Fprintf(os.Stderr, "INCONCLUSIVE: %s\n", inconclusive)
		return 2
	}
	return 0
}

func runReplay(id, testBin string, snap *pipe.Snapshot, replay, outDir string) int {
	abs, _ := filepath.Abs(replay)
	scratch, _ := os.MkdirTemp(pipe.ScratchRoot(), "verif-replay-")
	if os.Getenv("VERIF_KEEP_SCRATCH") != "" {
		fmt.Fprintf(os.Stderr, "scratch kept: %s\n", scratch) // triage aid
	} else {
		defer os.RemoveAll(scratch)
	}
	env := pipe.Env("VERIF_SNAP="+snap.Root, "VERIF_OUT="+outDir, "VERIF_TIER=quick", "VERIF_REPLAY="+abs,
		"VERIF_GOCACHE="+os.Getenv("VERIF_GOCACHE"),
		"VERIF_SCRATCH_DIR="+scratch, "VERIF_DIR="+verifDir(), "VERIF_SHARD=0", "VERIF_SHARD_SEED=1")
	cmd := exec.Command(testBin, "-test.run", "^TestReplay"+id+"$", "-test.v", "-test.timeout", "10m")
	cmd.Env = env
	cmd.Dir = outDir
	cmd.Stdout, cmd.Stderr = os.Stdout, os.Stderr
	cmd.SysProcAttr = &syscall.SysProcAttr{Setpgid: true}
	err := cmd.Run()
	rep, rerr := ev.ReadReport(filepath.Join(outDir, "report.json"))
	if rerr == nil && len(rep.Failures) > 0 {
		fmt.Printf("VIOLATION property=%s replay=%s\n", id, abs)
		return 1
	}
	if err != nil {
		fmt.Fprintf(os.Stderr, "INCONCLUSIVE: replay run failed: %v\n", err)
		return 2
	}
	if rerr == nil {
		for k, n := range rep.Known {
			if n > 0 {
				fmt.Printf("KNOWN-FINDING: property=%s %s\n", id, k)
			}
		}
	}
	fmt.Println("replay: property held")
	return 0
}

var _ = json.Marshal

// buildWire builds google/wire's CLI (v0.7.0, from the module cache) into the snapshot.
func buildWire(snap *pipe.Snapshot) error {
	dir := filepath.Join(snap.Root, "wiretool")
	_ = os.MkdirAll(dir, 0o755)
	_ = os.WriteFile(filepath.Join(dir, "go.mod"), []byte("module wiretool\n\ngo 1.25\n\nrequire (\n\tgithub.com/google/wire v0.7.0\n\tgolang.org/x/tools v0.42.0\n)\n"), 0o644)
	sum := ""
	for _, f := range []string{filepath.Join(snap.Src, "go.sum"), filepath.Join(snap.Src, "tools", "go.sum")} {
		if b, err := os.ReadFile(f); err == nil {
			sum += string(b)
		}
	}
	_ = os.WriteFile(filepath.Join(dir, "go.sum"), []byte(sum), 0o644)
	_ = os.WriteFile(filepath.Join(dir, "tools.go"), []byte("//go:build tools\n\npackage tools\n\nimport _ \"github.com/google/wire/cmd/wire\"\n"), 0o644)
	r := pipe.Run(pipe.Cmd{Dir: dir, Args: []string{"go", "build", "-o", filepath.Join(snap.Root, "wire"), "github.com/google/wire/cmd/wire"}, Timeout: 10 * time.Minute})
	if r.Exit != 0 {
		return fmt.Errorf("%s", r.Stderr)
	}
	return nil
}

// cleanStaleRunCaches removes gocache-run-<pid> directories of driver processes that are gone.
func cleanStaleRunCaches(outDir string) {
	ents, err := os.ReadDir(outDir)
	if err != nil {
		return
	}
	for _, e := range ents {
		var pid int
		if n, _ := fmt.Sscanf(e.Name(), "gocache-run-%d", &pid); n == 1 {
			if syscall.Kill(pid, 0) != nil {
				_ = os.RemoveAll(filepath.Join(outDir, e.Name()))
			}
		}
	}
}
