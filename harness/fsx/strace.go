package fsx

import (
	"bufio"
	"fmt"
	"os"
	"path/filepath"
	"regexp"
	"strings"
	"time"

	"verifharness/pipe"
)

// Syscall is one line of an strace log.
type Syscall struct {
	PID      string
	Name     string
	Args     string
	Ret      string
	Injected bool
	Killed   bool // the process was killed on entry to this call (no return value)
	Paths    []string
}

var (
	reLine   = regexp.MustCompile(`^(\d+)\s+([a-z0-9_]+)\((.*)$`)
	rePathQ  = regexp.MustCompile(`"((?:[^"\\]|\\.)*)"`)
	rePathFD = regexp.MustCompile(`<([^<>]*)>`)
	reRet    = regexp.MustCompile(`\)\s+= `)
)

const TraceSet = "mkdirat,mkdir,openat,open,creat,write,pwrite64,writev,fsync,fdatasync,close,fchmodat,chmod,fchmod,renameat,renameat2,rename,unlinkat,unlink,rmdir,linkat,symlinkat,ftruncate,truncate"

// ParseStrace reads an strace -f -y log.
func ParseStrace(path string) ([]Syscall, bool, error) {
	f, err := os.Open(path)
	if err != nil {
		return nil, false, err
	}
	defer f.Close()
	var out []Syscall
	killed := false
	sc := bufio.NewScanner(f)
	sc.Buffer(make([]byte, 1<<20), 16<<20)
	for sc.Scan() {
		line := sc.Text()
		if strings.Contains(line, "+++ killed by SIGKILL") {
			killed = true
			continue
		}
		m := reLine.FindStringSubmatch(line)
		if m == nil {
			continue
		}
		s := Syscall{PID: m[1], Name: m[2]}
		rest := m[3]
		// strace pads short lines: "close(3</etc/ld.so.cache>)        = 0"
		if loc := reRet.FindAllStringIndex(rest, -1); len(loc) > 0 {
			i, j := loc[len(loc)-1][0], loc[len(loc)-1][1]
			s.Args = rest[:i]
			s.Ret = strings.TrimSpace(rest[j:])
			if s.Ret == "?" {
				s.Killed = true
			}
		} else {
			// unfinished (killed while in / on entry to the call)
			s.Args = strings.TrimSuffix(strings.TrimSuffix(rest, " <unfinished ...>"), ")")
			s.Ret = "?"
			s.Killed = true
		}
		if strings.Contains(s.Ret, "(INJECTED)") {
			s.Injected = true
		}
		for _, q := range rePathQ.FindAllStringSubmatch(s.Args, -1) {
			if strings.HasPrefix(q[1], "/") {
				s.Paths = append(s.Paths, q[1])
			}
		}
		for _, q := range rePathFD.FindAllStringSubmatch(s.Args, -1) {
			if strings.HasPrefix(q[1], "/") {
				s.Paths = append(s.Paths, q[1])
			}
		}
		out = append(out, s)
	}
	return out, killed, sc.Err()
}

// Touches reports whether the call mentions a path under base.
func (s *Syscall) Touches(base string) bool {
	for _, p := range s.Paths {
		if p == base || strings.HasPrefix(p, base+"/") {
			return true
		}
	}
	return false
}

func (s *Syscall) OK() bool { return !s.Killed && !strings.HasPrefix(s.Ret, "-1") && s.Ret != "?" }

// Inject describes one fault: on the When-th invocation of Syscall either kill the process
// on entry (Signal) or make the call fail with Errno.
type Inject struct {
	Syscall string
	When    int
	Signal  bool
	Errno   string
}

func (i Inject) Expr() string {
	if i.Signal {
		return fmt.Sprintf("inject=%s:signal=SIGKILL:when=%d", i.Syscall, i.When)
	}
	return fmt.Sprintf("inject=%s:error=%s:when=%d", i.Syscall, i.Errno, i.When)
}

type TraceResult struct {
	Calls  []Syscall
	Killed bool
	Exit   int
	Stdout string
	Stderr string
	Err    error
}

// RunTraced runs argv under strace (optionally with one injection) and parses the log.
func RunTraced(dir string, env []string, argv []string, inj *Inject, logPath string) TraceResult {
	_ = os.Remove(logPath)
	args := []string{"strace", "-f", "-y", "-s", "0", "-o", logPath, "-e", "trace=" + TraceSet}
	if inj != nil {
		args = append(args, "-e", inj.Expr())
	}
	args = append(args, argv...)
	r := pipe.Run(pipe.Cmd{Dir: dir, Env: env, Args: args, Timeout: 60 * time.Second})
	tr := TraceResult{Exit: r.Exit, Stdout: r.Stdout, Stderr: r.Stderr, Err: r.Err}
	calls, killed, err := ParseStrace(logPath)
	if err != nil && tr.Err == nil {
		tr.Err = err
	}
	tr.Calls, tr.Killed = calls, killed
	return tr
}

// Rel returns p relative to base ("" if outside).
func Rel(base, p string) string {
	r, err := filepath.Rel(base, p)
	if err != nil || strings.HasPrefix(r, "..") {
		return ""
	}
	return r
}
