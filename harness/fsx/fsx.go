// Package fsx takes filesystem snapshots and diffs them.
package fsx

import (
	"crypto/sha256"
	"encoding/hex"
	"io/fs"
	"os"
	"path/filepath"
	"sort"
)

type Entry struct {
	Kind  string // f, d, l, o
	Mode  fs.FileMode
	Sum   string
	Size  int64
	Mtime int64
}

type Tree map[string]Entry

// Snap walks root and returns entries keyed by path relative to root ("." excluded).
func Snap(root string) Tree {
	t := Tree{}
	_ = filepath.Walk(root, func(p string, info fs.FileInfo, err error) error {
		if err != nil {
			return nil
		}
		rel, _ := filepath.Rel(root, p)
		if rel == "." {
			return nil
		}
		e := Entry{Mode: info.Mode().Perm(), Size: info.Size(), Mtime: info.ModTime().UnixNano()}
		switch {
		case info.Mode().IsRegular():
			e.Kind = "f"
			if b, err := os.ReadFile(p); err == nil {
				s := sha256.Sum256(b)
				e.Sum = hex.EncodeToString(s[:])
			}
		case info.IsDir():
			e.Kind = "d"
			e.Size = 0
		case info.Mode()&fs.ModeSymlink != 0:
			e.Kind = "l"
			e.Sum, _ = os.Readlink(p)
		default:
			e.Kind = "o"
		}
		t[rel] = e
		return nil
	})
	return t
}

type Change struct {
	Path string
	Op   string // created, removed, modified
	A, B Entry
}

// Diff lists differences between a (before) and b (after). Directory mtimes are ignored.
func Diff(a, b Tree) []Change {
	var out []Change
	for p, ea := range a {
		eb, ok := b[p]
		if !ok {
			out = append(out, Change{p, "removed", ea, Entry{}})
			continue
		}
		if ea.Kind == "d" && eb.Kind == "d" {
			if ea.Mode != eb.Mode {
				out = append(out, Change{p, "modified", ea, eb})
			}
			continue
		}
		if ea != eb {
			out = append(out, Change{p, "modified", ea, eb})
		}
	}
	for p, eb := range b {
		if _, ok := a[p]; !ok {
			out = append(out, Change{p, "created", Entry{}, eb})
		}
	}
	sort.Slice(out, func(i, j int) bool { return out[i].Path < out[j].Path })
	return out
}

func SumBytes(b []byte) string {
	s := sha256.Sum256(b)
	return hex.EncodeToString(s[:])
}
