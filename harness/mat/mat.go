// Package mat materialises a spec.Case as the Go sources of a scratch module.
package mat

import (
	"embed"
	"fmt"
	"os"
	"path/filepath"
	"sort"
	"strings"

	"verifharness/spec"
)

//go:embed rtsrc/vrt.go
var rtFS embed.FS

const Module = "vcase"
const UserPkg = "app"

// WriteVRT writes the runtime module (package vrt) into dir.
func WriteVRT(dir string) error {
	if err := os.MkdirAll(dir, 0o755); err != nil {
		return err
	}
	b, err := rtFS.ReadFile("rtsrc/vrt.go")
	if err != nil {
		return err
	}
	if err := os.WriteFile(filepath.Join(dir, "vrt.go"), b, 0o644); err != nil {
		return err
	}
	return os.WriteFile(filepath.Join(dir, "go.mod"), []byte("module vrt\n\ngo 1.25\n"), 0o644)
}

// Layout describes where things were written.
type Layout struct {
	Root    string            // module root
	AppDir  string            // user package directory
	Files   []string          // declaration files (absolute), in spec order
	ExtDirs map[string]string // ext key -> dir
}

type Env struct {
	KessokuSrc string // snapshot source tree (replace target)
	VRTDir     string // vrt module dir
	WithWire   bool
}

func goMod(env Env) string {
	s := "module " + Module + "\n\ngo 1.25\n\nrequire (\n\tgithub.com/mazrean/kessoku v0.0.0\n\tgolang.org/x/sync v0.19.0\n\tvrt v0.0.0\n"
	if env.WithWire {
		s += "\tgithub.com/google/wire v0.7.0\n\tgolang.org/x/tools v0.42.0\n"
	}
	s += ")\n\nreplace github.com/mazrean/kessoku => " + env.KessokuSrc + "\n\nreplace vrt => " + env.VRTDir + "\n"
	return s
}

// Write materialises the case under root (which is created/emptied).
func Write(c *spec.Case, root string, env Env) (*Layout, error) {
	_ = os.RemoveAll(root)
	l := &Layout{Root: root, AppDir: filepath.Join(root, UserPkg), ExtDirs: map[string]string{}}
	if err := os.MkdirAll(l.AppDir, 0o755); err != nil {
		return nil, err
	}
	w := func(path, content string) error {
		if err := os.MkdirAll(filepath.Dir(path), 0o755); err != nil {
			return err
		}
		return os.WriteFile(path, []byte(content), 0o644)
	}
	if err := w(filepath.Join(root, "go.mod"), goMod(env)); err != nil {
		return nil, err
	}
	// go.sum: copy the snapshot's (covers x/sync and kessoku's deps)
	if b, err := os.ReadFile(filepath.Join(env.KessokuSrc, "go.sum")); err == nil {
		_ = os.WriteFile(filepath.Join(root, "go.sum"), b, 0o644)
	}
	for i := range c.Exts {
		e := &c.Exts[i]
		dir := filepath.Join(root, filepath.FromSlash(e.Path))
		l.ExtDirs[e.Key] = dir
		if err := w(filepath.Join(dir, "ext.go"), extSource(c, e)); err != nil {
			return nil, err
		}
	}
	typesName, provName := "types.go", "providers.go"
	saved := map[int]string{}
	if c.OtherFilesPlain {
		// the other files of the package sort BEFORE the declaration files and import the
		// external packages under their own names, whatever alias the declaration files use
		typesName, provName = "a_types.go", "a_providers.go"
		for i := range c.Exts {
			if !c.Exts[i].Hidden {
				saved[i] = c.Exts[i].Alias
				c.Exts[i].Alias = ""
			}
		}
	}
	typesSrc := withImports(c, UserPkg, typesSource(c))
	provSrc := withImports(c, UserPkg, providersSource(c))
	for i, a := range saved {
		c.Exts[i].Alias = a
	}
	if err := w(filepath.Join(l.AppDir, typesName), typesSrc); err != nil {
		return nil, err
	}
	if err := w(filepath.Join(l.AppDir, provName), provSrc); err != nil {
		return nil, err
	}
	if len(c.PkgNames) > 0 {
		if err := w(filepath.Join(l.AppDir, "names.go"), namesSource(c)); err != nil {
			return nil, err
		}
	}
	if hh := compositeHelpersFor(c, true); hh != "" {
		// helpers over types of a hidden external package: only the harness' own builds (tag
		// vcasehidden) see this file, the generator's view of the package never imports that package
		src := withImports(c, UserPkg, hh+"var _ = vrt.Mix\n")
		if err := w(filepath.Join(l.AppDir, "hidden_helpers.go"), "//go:build "+HiddenTag+"\n\n"+src); err != nil {
			return nil, err
		}
	}
	for i := range c.Files {
		f := &c.Files[i]
		p := filepath.Join(l.AppDir, f.Name)
		if err := w(p, withImports(c, UserPkg, fileSource(c, f))); err != nil {
			return nil, err
		}
		l.Files = append(l.Files, p)
	}
	return l, nil
}

// HiddenTag is the build tag of the helper file over hidden external packages.
const HiddenTag = "vcasehidden"

func kname(c *spec.Case) string {
	if c.KAlias != "" {
		return c.KAlias
	}
	return "kessoku"
}

// withImports prepends the package clause and exactly the imports the body uses.
func withImports(c *spec.Case, pkg, body string) string {
	var imps []string
	has := func(tok string) bool { return containsIdent(body, tok) }
	if has("context") {
		imps = append(imps, `"context"`)
	}
	if has(kname(c)) {
		if c.KAlias != "" {
			imps = append(imps, c.KAlias+` "github.com/mazrean/kessoku"`)
		} else {
			imps = append(imps, `"github.com/mazrean/kessoku"`)
		}
	}
	if has("vrt") {
		imps = append(imps, `"vrt"`)
	}
	for i := range c.Exts {
		e := &c.Exts[i]
		n := e.Name
		if e.Alias != "" {
			n = e.Alias
		}
		if has(n) {
			if e.Alias != "" {
				imps = append(imps, e.Alias+` "`+Module+"/"+e.Path+`"`)
			} else {
				imps = append(imps, `"`+Module+"/"+e.Path+`"`)
			}
		}
	}
	var sb strings.Builder
	sb.WriteString("package " + pkg + "\n\n")
	if len(imps) > 0 {
		sb.WriteString("import (\n")
		for _, i := range imps {
			sb.WriteString("\t" + i + "\n")
		}
		sb.WriteString(")\n\n")
	}
	sb.WriteString(body)
	return sb.String()
}

// containsIdent reports whether body contains "tok." as a qualified-identifier prefix.
func containsIdent(body, tok string) bool {
	idx := 0
	for {
		i := strings.Index(body[idx:], tok+".")
		if i < 0 {
			return false
		}
		i += idx
		if i == 0 || !isIdentChar(body[i-1]) {
			return true
		}
		idx = i + 1
	}
}

func isIdentChar(b byte) bool {
	return b == '_' || b >= '0' && b <= '9' || b >= 'a' && b <= 'z' || b >= 'A' && b <= 'Z' || b == '.'
}

// ---------------------------------------------------------------- helpers per type

func mk(id spec.TypeID) string { return fmt.Sprintf("mk_%d", int(id)) }
func vh(id spec.TypeID) string {
	if id == spec.CtxType {
		return "vrt.CtxHash"
	}
	return fmt.Sprintf("vh_%d", int(id))
}

func basicMk(b, expr string) string {
	switch b {
	case "string":
		return "vrt.Itoa(" + expr + ")"
	case "bool":
		return "(" + expr + "&1 == 1)"
	case "byte", "uint8", "int8":
		return b + "(" + expr + " & 0x7f)"
	case "int16", "uint16":
		return b + "(" + expr + " & 0x7fff)"
	}
	return b + "(" + expr + ")"
}

func basicVh(b, expr string) string {
	switch b {
	case "interface{}":
		return "if v, ok := " + expr + ".(uint32); ok { return v }; return 0"
	case "string":
		return "return vrt.Atoi(string(" + expr + "))"
	case "bool":
		return "if " + expr + " { return 1 }; return 0"
	}
	return "return uint32(" + expr + ")"
}

// typeDecls renders the named types that live in package pkgKey and their helpers.
func typeDecls(c *spec.Case, pkgKey string) string {
	var sb strings.Builder
	exp := func(s string) string { // helper names are exported in ext packages
		if pkgKey == "" {
			return s
		}
		return strings.ToUpper(s[:1]) + s[1:]
	}
	for i := range c.Types {
		t := &c.Types[i]
		if t.Kind == "none" || t.Pkg != pkgKey {
			continue
		}
		id := t.ID
		if t.AliasSpell != "" && pkgKey == "" {
			fmt.Fprintf(&sb, "type %s = %s\n\n", t.AliasSpell, t.Name)
		}
		switch t.Kind {
		case spec.KStruct:
			if t.NoHash {
				fmt.Fprintf(&sb, "type %s struct {\n", t.Name)
				for _, f := range t.Fields {
					if f.Tag != "" {
						fmt.Fprintf(&sb, "\t%s %s `%s`\n", f.Name, c.Expr(f.Type, pkgKey), f.Tag)
						continue
					}
					fmt.Fprintf(&sb, "\t%s %s\n", f.Name, c.Expr(f.Type, pkgKey))
				}
				sb.WriteString("}\n\n")
				fmt.Fprintf(&sb, "func %s(h uint32) %s {\n\treturn %s{", exp(mk(id)), t.Name, t.Name)
				for fi, f := range t.Fields {
					if fi > 0 {
						sb.WriteString(", ")
					}
					fmt.Fprintf(&sb, "%s: %s(vrt.Mix(h, %d))", f.Name, helperRef(c, f.Type, pkgKey, "mk"), fi+1)
				}
				sb.WriteString("}\n}\n\n")
				fmt.Fprintf(&sb, "func %s(x %s) uint32 {\n\treturn vrt.Mix(777", exp(vh(id)), t.Name)
				for _, f := range t.Fields {
					fmt.Fprintf(&sb, ", %s(x.%s)", helperRef(c, f.Type, pkgKey, "vh"), f.Name)
				}
				sb.WriteString(")\n}\n\n")
				continue
			}
			fmt.Fprintf(&sb, "type %s struct {\n\th uint32\n", t.Name)
			for _, f := range t.Fields {
				if f.Emb {
					fmt.Fprintf(&sb, "\t%s\n", c.Expr(f.Type, pkgKey))
				} else {
					fmt.Fprintf(&sb, "\t%s %s\n", f.Name, c.Expr(f.Type, pkgKey))
				}
			}
			sb.WriteString("}\n\n")
			fmt.Fprintf(&sb, "func %s(h uint32) %s {\n\treturn %s{h: h", exp(mk(id)), t.Name, t.Name)
			for fi, f := range t.Fields {
				fmt.Fprintf(&sb, ", %s: %s(vrt.Mix(h, %d))", f.Name, helperRef(c, f.Type, pkgKey, "mk"), fi+1)
			}
			sb.WriteString("}\n}\n\n")
			fmt.Fprintf(&sb, "func %s(x %s) uint32 { return x.h }\n\n", exp(vh(id)), t.Name)
		case spec.KNBasic:
			fmt.Fprintf(&sb, "type %s %s\n\n", t.Name, t.Basic)
			fmt.Fprintf(&sb, "func %s(h uint32) %s { return %s(%s) }\n\n", exp(mk(id)), t.Name, t.Name, basicMk(t.Basic, "h"))
			fmt.Fprintf(&sb, "func %s(x %s) uint32 { %s }\n\n", exp(vh(id)), t.Name, basicVh(t.Basic, t.Basic+"(x)"))
		case spec.KIface:
			fmt.Fprintf(&sb, "type %s interface {\n\t%s() uint32\n}\n\n", t.Name, t.Method)
			fmt.Fprintf(&sb, "func %s(h uint32) %s { return %s(h) }\n\n", exp(mk(id)), t.Name, helperRef(c, t.Impl, pkgKey, "mk"))
			// a typed nil inside the interface (zero value of a pointer implementation) hashes to 0
			fmt.Fprintf(&sb, "func %s(x %s) (h uint32) {\n\tif x == nil {\n\t\treturn 0\n\t}\n\tdefer func() {\n\t\tif recover() != nil {\n\t\t\th = 0\n\t\t}\n\t}()\n\treturn x.%s()\n}\n\n", exp(vh(id)), t.Name, t.Method)
		case spec.KGeneric:
			// generic declaration is emitted once per name
			first := true
			for j := 0; j < i; j++ {
				if c.Types[j].Kind == spec.KGeneric && c.Types[j].Name == t.Name && c.Types[j].Pkg == t.Pkg {
					first = false
				}
			}
			if first {
				if pkgKey == "" {
					for j := range c.Types {
						if c.Types[j].Kind == spec.KGeneric && c.Types[j].GenAlias && c.Types[j].Name == t.Name {
							fmt.Fprintf(&sb, "// %sOf is a generic alias of %s.\ntype %sOf[T any] = %s[T]\n\n", t.Name, t.Name, t.Name, t.Name)
							break
						}
					}
				}
				fmt.Fprintf(&sb, "type %s[T any] struct {\n\th uint32\n\tV T\n}\n\n", t.Name)
			}
		}
	}
	// methods implementing interfaces: on the struct behind Impl (which may live in another package than the interface)
	for i := range c.Types {
		t := &c.Types[i]
		if t.Kind != spec.KIface {
			continue
		}
		base := t.Impl
		if c.T(base).Kind == spec.KPtr {
			base = c.T(base).Elem
		}
		st := c.T(base)
		if st.Pkg != pkgKey {
			continue
		}
		recv := "x " + st.Name
		if st.PtrRecv {
			recv = "x *" + st.Name
		}
		fmt.Fprintf(&sb, "func (%s) %s() uint32 { return x.h }\n\n", recv, t.Method)
	}
	for i := range c.Types {
		t := &c.Types[i]
		if t.Kind == spec.KStruct && t.Pkg == pkgKey && t.ImplError {
			fmt.Fprintf(&sb, "func (x *%s) Error() string { return \"value that implements error\" }\n\n", t.Name)
		}
	}
	for i := range c.Types {
		t := &c.Types[i]
		if t.Kind != spec.KStruct || t.Pkg != pkgKey {
			continue
		}
		for _, it := range t.AlsoImpl {
			fmt.Fprintf(&sb, "func (x %s) %s() uint32 { return x.h }\n\n", t.Name, c.T(it).Method)
		}
	}
	return sb.String()
}

// helperRef returns the expression naming the mk/vh helper of type id as seen from package from.
func helperRef(c *spec.Case, id spec.TypeID, from, which string) string {
	t := c.T(id)
	name := fmt.Sprintf("%s_%d", which, int(id))
	named := t.Kind == spec.KStruct || t.Kind == spec.KNBasic || t.Kind == spec.KIface
	if named && t.Pkg != "" && t.Pkg != from {
		e := c.Ext(t.Pkg)
		n := e.Name
		if e.Alias != "" {
			n = e.Alias
		}
		return n + "." + strings.ToUpper(name[:1]) + name[1:]
	}
	if from != "" {
		return strings.ToUpper(name[:1]) + name[1:]
	}
	return name
}

// compositeHelpers renders mk_/vh_ for unnamed types (and named types of other packages) in the user package.
func compositeHelpers(c *spec.Case) string { return compositeHelpersFor(c, false) }

// compositeHelpersFor renders the helpers of the types that mention a hidden external package
// (hidden = true) or of all other types (hidden = false).
func compositeHelpersFor(c *spec.Case, hidden bool) string {
	var sb strings.Builder
	for i := range c.Types {
		t := &c.Types[i]
		id := t.ID
		if t.Kind != "none" && c.MentionsHidden(id) != hidden {
			continue
		}
		ex := c.Expr(id, "")
		switch t.Kind {
		case "none":
			continue
		case spec.KStruct, spec.KNBasic, spec.KIface:
			if t.Pkg != "" {
				fmt.Fprintf(&sb, "func %s(h uint32) %s { return %s(h) }\n\n", mk(id), ex, helperRef(c, id, "", "mk"))
				fmt.Fprintf(&sb, "func %s(x %s) uint32 { return %s(x) }\n\n", vh(id), ex, helperRef(c, id, "", "vh"))
			}
		case spec.KBasic:
			fmt.Fprintf(&sb, "func %s(h uint32) %s { return %s }\n\n", mk(id), ex, basicMk(t.Basic, "h"))
			fmt.Fprintf(&sb, "func %s(x %s) uint32 { %s }\n\n", vh(id), ex, basicVh(t.Basic, "x"))
		case spec.KPtr:
			fmt.Fprintf(&sb, "func %s(h uint32) %s {\n\tv := %s(h)\n\treturn &v\n}\n\n", mk(id), ex, mk(t.Elem))
			fmt.Fprintf(&sb, "func %s(x %s) uint32 {\n\tif x == nil {\n\t\treturn 0\n\t}\n\treturn %s(*x)\n}\n\n", vh(id), ex, vh(t.Elem))
		case spec.KSlice:
			fmt.Fprintf(&sb, "func %s(h uint32) %s { return %s{%s(h)} }\n\n", mk(id), ex, ex, mk(t.Elem))
			fmt.Fprintf(&sb, "func %s(x %s) uint32 {\n\tif len(x) != 1 {\n\t\treturn 0\n\t}\n\treturn %s(x[0])\n}\n\n", vh(id), ex, vh(t.Elem))
		case spec.KArray:
			fmt.Fprintf(&sb, "func %s(h uint32) %s {\n\tvar a %s\n\tfor i := range a {\n\t\ta[i] = %s(h)\n\t}\n\treturn a\n}\n\n", mk(id), ex, ex, mk(t.Elem))
			fmt.Fprintf(&sb, "func %s(x %s) uint32 { return %s(x[0]) }\n\n", vh(id), ex, vh(t.Elem))
		case spec.KMap:
			fmt.Fprintf(&sb, "func %s(h uint32) %s { return %s{%s(7): %s(h)} }\n\n", mk(id), ex, ex, mk(t.Key), mk(t.Elem))
			fmt.Fprintf(&sb, "func %s(x %s) uint32 {\n\tfor _, v := range x {\n\t\treturn %s(v)\n\t}\n\treturn 0\n}\n\n", vh(id), ex, vh(t.Elem))
		case spec.KChan:
			fmt.Fprintf(&sb, "func %s(h uint32) %s {\n\tc := make(chan (%s), 1)\n\tvrt.RegChan(c, h)\n\treturn c\n}\n\n", mk(id), ex, c.Expr(t.Elem, ""))
			fmt.Fprintf(&sb, "func %s(x %s) uint32 { return vrt.ChanHash(x) }\n\n", vh(id), ex)
		case spec.KFunc:
			params, call := "", ""
			if t.HasKey {
				if t.Variadic {
					params = "_ int, _ ..." + c.Expr(t.Key, "")
					call = "0"
				} else {
					params = "_ " + c.Expr(t.Key, "")
					call = "z"
				}
			}
			fmt.Fprintf(&sb, "func %s(h uint32) %s { return func(%s) %s { return %s(h) } }\n\n", mk(id), ex, params, c.Expr(t.Elem, ""), mk(t.Elem))
			if call == "z" {
				fmt.Fprintf(&sb, "func %s(x %s) uint32 {\n\tif x == nil {\n\t\treturn 0\n\t}\n\tvar z %s\n\treturn %s(x(z))\n}\n\n", vh(id), ex, c.Expr(t.Key, ""), vh(t.Elem))
			} else {
				fmt.Fprintf(&sb, "func %s(x %s) uint32 {\n\tif x == nil {\n\t\treturn 0\n\t}\n\treturn %s(x(%s))\n}\n\n", vh(id), ex, vh(t.Elem), call)
			}
		case spec.KAStruct:
			fmt.Fprintf(&sb, "func %s(h uint32) %s { return %s{A: %s(h)} }\n\n", mk(id), ex, ex, mk(t.Elem))
			fmt.Fprintf(&sb, "func %s(x %s) uint32 { return %s(x.A) }\n\n", vh(id), ex, vh(t.Elem))
		case spec.KAIface:
			fmt.Fprintf(&sb, "func %s(h uint32) %s { return %s(h) }\n\n", mk(id), ex, mk(t.Elem))
			fmt.Fprintf(&sb, "func %s(x %s) (h uint32) {\n\tif x == nil {\n\t\treturn 0\n\t}\n\tdefer func() {\n\t\tif recover() != nil {\n\t\t\th = 0\n\t\t}\n\t}()\n\treturn x.%s()\n}\n\n", vh(id), ex, c.T(t.Elem).Method)
		case spec.KGeneric:
			fmt.Fprintf(&sb, "func %s(h uint32) %s { return %s{h: h} }\n\n", mk(id), ex, ex)
			fmt.Fprintf(&sb, "func %s(x %s) uint32 { return x.h }\n\n", vh(id), ex)
		}
	}
	return sb.String()
}

func typesSource(c *spec.Case) string {
	var sb strings.Builder
	sb.WriteString(typeDecls(c, ""))
	sb.WriteString(compositeHelpers(c))
	for _, a := range c.ExtraAliases {
		fmt.Fprintf(&sb, "type %s = %s\n\n", a[0], a[1])
	}
	for i := range c.Provs {
		if c.Provs[i].CtxAlias {
			sb.WriteString("// Ctx is how some providers spell the context they take.\ntype Ctx = context.Context\n\n")
			break
		}
	}
	for i := range c.Provs {
		if c.Provs[i].ErrAlias {
			sb.WriteString("// Failure is how some providers spell their error result.\ntype Failure = error\n\n")
			break
		}
	}
	sb.WriteString("var _ = vrt.Mix\n")
	return sb.String()
}

// namesSource declares the extra package-level identifiers in a file without imports.
func namesSource(c *spec.Case) string {
	var sb strings.Builder
	if c.NamesGenerated {
		sb.WriteString("// Code generated by \"stringer -type=Kind\"; DO NOT EDIT.\n\n")
	}
	sb.WriteString("package " + UserPkg + "\n\n")
	for _, n := range c.PkgNames {
		fmt.Fprintf(&sb, "var %s = 0\n\nfunc init() { _ = %s }\n\n", n, n)
	}
	for _, n := range c.PkgFuncs {
		fmt.Fprintf(&sb, "func %s() int { return 0 }\n\n", n)
	}
	return sb.String()
}

func extSource(c *spec.Case, e *spec.Ext) string {
	var sb strings.Builder
	sb.WriteString("package " + e.Name + "\n\nimport \"vrt\"\n\n")
	// other external packages mentioned in the signatures of this package's providers
	others := map[string]bool{}
	for i := range c.Provs {
		p := &c.Provs[i]
		if p.Form == "ext" && p.Pkg == e.Key {
			for _, t := range append(append([]spec.TypeID{}, p.Params...), p.Results...) {
				c.UsesExt(t, others)
			}
		}
	}
	delete(others, e.Key)
	for i := range c.Exts {
		o := &c.Exts[i]
		if others[o.Key] {
			n := o.Name
			if o.Alias != "" {
				n = o.Alias
			}
			fmt.Fprintf(&sb, "import %s %q\n\n", n, Module+"/"+o.Path)
		}
	}
	sb.WriteString(typeDecls(c, e.Key))
	// composite helpers needed by ext struct fields: ext field types are restricted to named ext types and basics
	for i := range c.Types {
		t := &c.Types[i]
		if t.Kind == spec.KBasic && usedByExt(c, e.Key, t.ID) {
			fmt.Fprintf(&sb, "func Mk_%d(h uint32) %s { return %s }\n\n", int(t.ID), t.Basic, basicMk(t.Basic, "h"))
		}
	}
	hasMethod := false
	for i := range c.Provs {
		p := &c.Provs[i]
		if p.Form == "ext" && p.Pkg == e.Key {
			sb.WriteString(providerFunc(c, p, e.Key))
			if p.Method {
				hasMethod = true
			}
		}
	}
	for _, v := range e.Vars {
		mkf := strings.ToUpper(mk(v.Type)[:1]) + mk(v.Type)[1:]
		if v.Holder {
			fmt.Fprintf(&sb, "var %s = struct{ V %s }{V: %s(%d)}\n\n", v.Name, c.Expr(v.Type, e.Key), mkf, v.H)
		} else {
			fmt.Fprintf(&sb, "var %s = %s(%d)\n\n", v.Name, mkf, v.H)
		}
	}
	if hasMethod {
		sb.WriteString("// FactoryT's methods are used as providers through method values of Factory.\ntype FactoryT struct{}\n\nvar Factory FactoryT\n\n")
	}
	sb.WriteString("var _ = vrt.Mix\n")
	return sb.String()
}

func usedByExt(c *spec.Case, key string, id spec.TypeID) bool {
	for i := range c.Types {
		t := &c.Types[i]
		if t.Kind == spec.KStruct && t.Pkg == key {
			for _, f := range t.Fields {
				if f.Type == id {
					return true
				}
			}
		}
	}
	return false
}

// ---------------------------------------------------------------- providers

func providerSig(c *spec.Case, p *spec.Prov, from string) (params, results string) {
	var ps []string
	for i, t := range p.Params {
		ex := c.ExprParam(t, from)
		if t == spec.CtxType && p.CtxAlias {
			ex = "Ctx"
		}
		if p.Variadic && i == len(p.Params)-1 {
			ex = "..." + c.Expr(c.T(t).Elem, from)
		}
		ps = append(ps, fmt.Sprintf("%s %s", paramName(p, i), ex))
	}
	var rs []string
	for _, t := range p.Results {
		rs = append(rs, c.Expr(t, from))
	}
	if p.Err {
		if p.ErrAlias {
			rs = append(rs, "Failure")
		} else {
			rs = append(rs, "error")
		}
	}
	res := strings.Join(rs, ", ")
	if len(rs) > 1 {
		res = "(" + res + ")"
	}
	return strings.Join(ps, ", "), res
}

func vhCall(c *spec.Case, t spec.TypeID, from, arg string) string {
	if t == spec.CtxType {
		return "vrt.CtxHash(" + arg + ")"
	}
	if from == "" {
		return vh(t) + "(" + arg + ")"
	}
	// inside an ext package only named ext types, pointers to them and basics occur
	tt := c.T(t)
	switch tt.Kind {
	case spec.KBasic:
		switch tt.Basic {
		case "string":
			return "vrt.Atoi(" + arg + ")"
		case "bool":
			return "func() uint32 { if " + arg + " { return 1 }; return 0 }()"
		case "interface{}":
			return "func() uint32 { if v, ok := " + arg + ".(uint32); ok { return v }; return 0 }()"
		}
		return "uint32(" + arg + ")"
	case spec.KPtr:
		return "func() uint32 { if " + arg + " == nil { return 0 }; return " + vhCall(c, tt.Elem, from, "*"+arg) + " }()"
	}
	return helperRef(c, t, from, "vh") + "(" + arg + ")"
}

func mkCall(c *spec.Case, t spec.TypeID, from, arg string) string {
	if t == spec.CtxType {
		return "vrt.MkCtx(" + arg + ")"
	}
	if from == "" {
		return mk(t) + "(" + arg + ")"
	}
	tt := c.T(t)
	switch tt.Kind {
	case spec.KBasic:
		return basicMk(tt.Basic, arg)
	case spec.KPtr:
		return "func() " + c.Expr(t, from) + " { v := " + mkCall(c, tt.Elem, from, arg) + "; return &v }()"
	}
	return helperRef(c, t, from, "mk") + "(" + arg + ")"
}

func paramName(p *spec.Prov, i int) string {
	if i == 0 && p.Param0Name != "" {
		return p.Param0Name
	}
	return fmt.Sprintf("a%d", i)
}

func providerBody(c *spec.Case, p *spec.Prov, from string) string {
	var sb strings.Builder
	var hs []string
	for i, t := range p.Params {
		hs = append(hs, vhCall(c, t, from, paramName(p, i)))
	}
	args := fmt.Sprint(p.ID)
	if len(hs) > 0 {
		args += ", " + strings.Join(hs, ", ")
	}
	if p.Err {
		fmt.Fprintf(&sb, "\tr, fail := vrt.Call(%s)\n\tif fail != nil {\n", args)
		var zs []string
		for i, t := range p.Results {
			fmt.Fprintf(&sb, "\t\tvar z%d %s\n", i, c.Expr(t, from))
			zs = append(zs, fmt.Sprintf("z%d", i))
		}
		zs = append(zs, "fail")
		fmt.Fprintf(&sb, "\t\treturn %s\n\t}\n", strings.Join(zs, ", "))
	} else {
		fmt.Fprintf(&sb, "\tr, _ := vrt.Call(%s)\n", args)
	}
	var rs []string
	for i, t := range p.Results {
		rs = append(rs, mkCall(c, t, from, fmt.Sprintf("vrt.Mix(r, %d)", i)))
	}
	if p.Err {
		rs = append(rs, "nil")
	}
	fmt.Fprintf(&sb, "\treturn %s\n", strings.Join(rs, ", "))
	return sb.String()
}

func providerFunc(c *spec.Case, p *spec.Prov, from string) string {
	ps, rs := providerSig(c, p, from)
	if p.Method {
		return fmt.Sprintf("func (FactoryT) %s(%s) %s {\n%s}\n\n", p.Name, ps, rs, providerBody(c, p, from))
	}
	if p.FuncVar && p.FuncVarType != "" {
		// the variable has a declared (named or alias) function type
		eq := ""
		if p.FuncVarType == "alias" {
			eq = "= "
		}
		return fmt.Sprintf("type %sFunc %sfunc(%s) %s\n\nvar %s %sFunc = func(%s) %s {\n%s}\n\n", p.Name, eq, ps, rs, p.Name, p.Name, ps, rs, providerBody(c, p, from))
	}
	if p.FuncVar {
		return fmt.Sprintf("var %s = func(%s) %s {\n%s}\n\n", p.Name, ps, rs, providerBody(c, p, from))
	}
	return fmt.Sprintf("func %s(%s) %s {\n%s}\n\n", p.Name, ps, rs, providerBody(c, p, from))
}

func providerLit(c *spec.Case, p *spec.Prov) string {
	ps, rs := providerSig(c, p, "")
	return fmt.Sprintf("func(%s) %s {\n%s}", ps, rs, providerBody(c, p, ""))
}

func providersSource(c *spec.Case) string {
	var sb strings.Builder
	for i := range c.Provs {
		p := &c.Provs[i]
		if p.Form == "func" {
			sb.WriteString(providerFunc(c, p, ""))
		}
	}
	sb.WriteString("var _ = vrt.Mix\n")
	return sb.String()
}

// ---------------------------------------------------------------- declarations

func provRef(c *spec.Case, p *spec.Prov) string {
	switch p.Form {
	case "lit":
		return providerLit(c, p)
	case "ext":
		e := c.Ext(p.Pkg)
		n := e.Name
		if e.Alias != "" {
			n = e.Alias
		}
		if p.Method {
			return n + ".Factory." + p.Name
		}
		return n + "." + p.Name
	}
	return p.Name
}

// ElemExpr renders one Inject/Set argument.
func ElemExpr(c *spec.Case, e *spec.Elem) string {
	if e.Hoist != "" {
		return e.Hoist // declared by hoistedVars
	}
	x := elemExpr(c, e)
	if e.Paren && e.Kind != "set" {
		return "(" + x + ")"
	}
	return x
}

// hoistedVars declares the package-level variables that hold hoisted elements.
func hoistedVars(c *spec.Case, es []spec.Elem, seen map[string]bool) string {
	var sb strings.Builder
	for i := range es {
		e := &es[i]
		if e.Hoist != "" && !seen[e.Hoist] {
			seen[e.Hoist] = true
			fmt.Fprintf(&sb, "var %s = %s\n\n", e.Hoist, elemExpr(c, e))
		}
		if e.Kind == "inline" {
			sb.WriteString(hoistedVars(c, e.Inline, seen))
		}
	}
	return sb.String()
}

func elemExpr(c *spec.Case, e *spec.Elem) string {
	k := kname(c)
	wrap := func(inner string) string {
		bind := func(s string) string {
			for i := len(e.Bind) - 1; i >= 0; i-- {
				s = fmt.Sprintf("%s.Bind[%s](%s)", k, c.Expr(e.Bind[i], ""), s)
			}
			return s
		}
		if e.Async {
			if e.AsyncInner && len(e.Bind) > 0 {
				return bind(k + ".Async(" + inner + ")")
			}
			return k + ".Async(" + bind(inner) + ")"
		}
		return bind(inner)
	}
	switch e.Kind {
	case "prov":
		return wrap(k + ".Provide(" + provRef(c, c.ProvByID(e.Prov)) + ")")
	case "struct":
		if e.StructAlias != "" {
			return wrap(fmt.Sprintf("%s.Struct[%s]()", k, e.StructAlias))
		}
		return wrap(fmt.Sprintf("%s.Struct[%s]()", k, c.Expr(e.Struct, "")))
	case "value":
		if e.Literal {
			// an untyped constant: its type is inferred (int / string)
			if c.T(e.Value).Basic == "string" {
				return fmt.Sprintf("%s.Value(\"%d\")", k, e.H)
			}
			return fmt.Sprintf("%s.Value(%d)", k, e.H)
		}
		return fmt.Sprintf("%s.Value(%s(vrt.Val(%d, %d)))", k, mk(e.Value), e.VID, e.H)
	case "set":
		if e.Paren {
			return "(" + e.Set + ")"
		}
		return e.Set
	case "inline":
		var parts []string
		for i := range e.Inline {
			parts = append(parts, ElemExpr(c, &e.Inline[i]))
		}
		if len(parts) == 0 {
			return k + ".Set()"
		}
		return k + ".Set(\n\t\t" + strings.Join(parts, ",\n\t\t") + ",\n\t)"
	}
	return "nil"
}

func fileSource(c *spec.Case, f *spec.File) string {
	var sb strings.Builder
	k := kname(c)
	if f.MultiVar && len(f.Sets) >= 2 {
		// one var statement with several names: var a, b = Set(...), Set(...)
		var names, vals []string
		aliases := ""
		for i := range f.Sets {
			s := &f.Sets[i]
			if s.AliasOf != "" {
				aliases += fmt.Sprintf("var %s = %s\n\n", s.Name, s.AliasOf)
				continue
			}
			names = append(names, s.Name)
			var parts []string
			for j := range s.Elems {
				parts = append(parts, ElemExpr(c, &s.Elems[j]))
			}
			vals = append(vals, k+".Set(\n\t"+strings.Join(parts, ",\n\t")+",\n)")
			if len(parts) == 0 {
				vals[len(vals)-1] = k + ".Set()"
			}
		}
		if len(names) > 0 {
			fmt.Fprintf(&sb, "var %s = %s\n\n", strings.Join(names, ", "), strings.Join(vals, ", "))
		}
		sb.WriteString(aliases)
	} else {
		for i := range f.Sets {
			s := &f.Sets[i]
			if s.AliasOf != "" {
				fmt.Fprintf(&sb, "var %s = %s\n\n", s.Name, s.AliasOf)
				continue
			}
			open, close := "", ""
			if s.Paren {
				open, close = "(", ")"
			}
			fmt.Fprintf(&sb, "var %s = %s%s.Set(\n", s.Name, open, k)
			for j := range s.Elems {
				fmt.Fprintf(&sb, "\t%s,\n", ElemExpr(c, &s.Elems[j]))
			}
			sb.WriteString(")" + close + "\n\n")
		}
	}
	hoisted := map[string]bool{}
	injectCall := func(in *spec.Injector) string {
		var ib strings.Builder
		fmt.Fprintf(&ib, "%s.Inject[%s](\n\t%q,\n", k, c.Expr(in.Want, ""), in.Name)
		for j := range in.Elems {
			fmt.Fprintf(&ib, "\t%s,\n", ElemExpr(c, &in.Elems[j]))
		}
		ib.WriteString(")")
		return ib.String()
	}
	for i := 0; i < len(f.Injectors); i++ {
		in := &f.Injectors[i]
		sb.WriteString(hoistedVars(c, in.Elems, hoisted))
		switch {
		case in.Form == "typed":
			fmt.Fprintf(&sb, "var _ struct{} = %s\n\n", injectCall(in))
		case in.Form == "named":
			fmt.Fprintf(&sb, "var decl%s = %s\n\n", in.Name, injectCall(in))
		case in.Form == "block":
			fmt.Fprintf(&sb, "var (\n\tblock%s = 3\n\t_ = %s\n)\n\nfunc init() { _ = block%s }\n\n", in.Name, injectCall(in), in.Name)
		case in.Form == "multi" && i+1 < len(f.Injectors):
			// two declarations in one var statement
			nx := &f.Injectors[i+1]
			sb.WriteString(hoistedVars(c, nx.Elems, hoisted))
			fmt.Fprintf(&sb, "var _, _ = %s, %s\n\n", injectCall(in), injectCall(nx))
			i++
		default:
			fmt.Fprintf(&sb, "var _ = %s\n\n", injectCall(in))
		}
	}
	return sb.String()
}

// ---------------------------------------------------------------- inner glue

// AdapterSpec describes how to call one emitted injector.
type AdapterSpec struct {
	Name    string
	Params  []spec.TypeID // in emitted order; CtxType for context.Context
	Result  spec.TypeID
	HasErr  bool
}

// GlueSource renders inner_test.go.
func GlueSource(c *spec.Case, ads []AdapterSpec) string {
	var sb strings.Builder
	sb.WriteString("package " + UserPkg + "\n\nimport (\n\t\"context\"\n\t\"testing\"\n\n\t\"vrt\"\n)\n\nfunc init() {\n")
	for _, a := range ads {
		var args []string
		for _, p := range a.Params {
			if p == spec.CtxType {
				args = append(args, "ctx")
			} else {
				args = append(args, fmt.Sprintf("%s(a[\"%d\"])", mk(p), int(p)))
			}
		}
		fmt.Fprintf(&sb, "\tvrt.Register(&vrt.Adapter{Name: %q, HasErr: %v, Call: func(ctx context.Context, a map[string]uint32) (uint32, error) {\n", a.Name, a.HasErr)
		call := fmt.Sprintf("%s(%s)", a.Name, strings.Join(args, ", "))
		if a.HasErr {
			fmt.Fprintf(&sb, "\t\tr, err := %s\n\t\tif err != nil {\n\t\t\treturn 0, err\n\t\t}\n\t\treturn %s(r), nil\n", call, vh(a.Result))
		} else {
			fmt.Fprintf(&sb, "\t\tr := %s\n\t\treturn %s(r), nil\n", call, vh(a.Result))
		}
		sb.WriteString("\t}})\n")
	}
	sb.WriteString("}\n\nvar _ = context.Background\n\nfunc TestInner(t *testing.T) { vrt.RunAll(t) }\n")
	return sb.String()
}

// SortedFeatures is a helper for stable output.
func SortedFeatures(m map[string]bool) []string {
	var out []string
	for k, v := range m {
		if v {
			out = append(out, k)
		}
	}
	sort.Strings(out)
	return out
}
