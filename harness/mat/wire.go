package mat

import (
	"fmt"
	"os"
	"path/filepath"
	"strings"

	"verifharness/spec"
)

// WriteWire materialises a wire configuration: module with types.go, providers.go, the
// wire files and (optionally) value variables. Returns the layout.
func WriteWire(w *spec.WCase, root string, env Env) (*Layout, error) {
	env.WithWire = true
	c := w.Spec
	_ = os.RemoveAll(root)
	l := &Layout{Root: root, AppDir: filepath.Join(root, UserPkg), ExtDirs: map[string]string{}}
	wr := func(path, content string) error {
		if err := os.MkdirAll(filepath.Dir(path), 0o755); err != nil {
			return err
		}
		return os.WriteFile(path, []byte(content), 0o644)
	}
	if err := wr(filepath.Join(root, "go.mod"), goMod(env)); err != nil {
		return nil, err
	}
	sum := ""
	for _, f := range []string{filepath.Join(env.KessokuSrc, "go.sum"), filepath.Join(env.KessokuSrc, "tools", "go.sum")} {
		if b, err := os.ReadFile(f); err == nil {
			sum += string(b)
		}
	}
	_ = os.WriteFile(filepath.Join(root, "go.sum"), []byte(sum), 0o644)
	for i := range c.Exts {
		e := &c.Exts[i]
		dir := filepath.Join(root, filepath.FromSlash(e.Path))
		l.ExtDirs[e.Key] = dir
		if err := wr(filepath.Join(dir, "ext.go"), extSource(c, e)); err != nil {
			return nil, err
		}
	}
	if err := wr(filepath.Join(l.AppDir, "types.go"), withImports(c, UserPkg, typesSource(c)+wireValueVars(w)+pkgFuncsSource(c))); err != nil {
		return nil, err
	}
	if err := wr(filepath.Join(l.AppDir, "providers.go"), withImports(c, UserPkg, providersSource(c))); err != nil {
		return nil, err
	}
	for i := range w.Files {
		f := &w.Files[i]
		p := filepath.Join(l.AppDir, f.Name)
		if err := wr(p, WireFileSource(w, f)); err != nil {
			return nil, err
		}
		l.Files = append(l.Files, p)
	}
	return l, nil
}

func pkgFuncsSource(c *spec.Case) string {
	var sb strings.Builder

	for _, n := range c.PkgNames {
		fmt.Fprintf(&sb, "var %s = 0\n\nfunc init() { _ = %s }\n\n", n, n)
	}
	for _, n := range c.PkgFuncs {
		fmt.Fprintf(&sb, "func %s() int { return 0 }\n\n", n)
	}
	return sb.String()
}

func wireValueVars(w *spec.WCase) string {
	var sb strings.Builder
	seen := map[string]bool{}
	var walk func(es []spec.WElem)
	walk = func(es []spec.WElem) {
		for i := range es {
			e := &es[i]
			switch e.Kind {
			case "value", "ivalue":
				if !seen[e.Var] && e.VarPkg == "" {
					seen[e.Var] = true
					fmt.Fprintf(&sb, "var %s = %s(%d)\n\n", e.Var, mk(e.Type), e.H)
				}
			case "inline":
				walk(e.Inline)
			}
		}
	}
	for i := range w.Files {
		for j := range w.Files[i].Sets {
			walk(w.Files[i].Sets[j].Elems)
		}
		for j := range w.Files[i].Injectors {
			walk(w.Files[i].Injectors[j].Elems)
		}
	}
	return sb.String()
}

func wireElem(w *spec.WCase, e *spec.WElem) string {
	if e.Paren {
		return "(" + wireElemBare(w, e) + ")"
	}
	return wireElemBare(w, e)
}

func wireElemBare(w *spec.WCase, e *spec.WElem) string {
	c := w.Spec
	switch e.Kind {
	case "prov":
		return provRef(c, c.ProvByID(e.Prov))
	case "set":
		return e.Set
	case "inline":
		var parts []string
		for i := range e.Inline {
			parts = append(parts, wireElem(w, &e.Inline[i]))
		}
		return "wire.NewSet(" + strings.Join(parts, ", ") + ")"
	case "bind":
		impl := c.Expr(e.Impl, "")
		if e.ImplAlias != "" {
			// only this binding spells the implementation through the alias
			if st := c.StructOf(e.Impl); st != nil {
				impl = strings.Replace(impl, st.Name, e.ImplAlias, 1)
			}
		}
		if e.NilPtr {
			return fmt.Sprintf("wire.Bind((*%s)(nil), (*%s)(nil))", c.Expr(e.Iface, ""), impl)
		}
		return fmt.Sprintf("wire.Bind(new(%s), new(%s))", c.Expr(e.Iface, ""), impl)
	case "value":
		if e.VarPkg != "" {
			x := c.Ext(e.VarPkg)
			n := x.Name
			if x.Alias != "" {
				n = x.Alias
			}
			return "wire.Value(" + n + "." + e.Var + ")" // e.Var may be a selector chain (Holder.V)
		}
		return "wire.Value(" + e.Var + ")"
	case "ivalue":
		if e.NilPtr {
			return fmt.Sprintf("wire.InterfaceValue((*%s)(nil), %s)", c.Expr(e.Iface, ""), e.Var)
		}
		return fmt.Sprintf("wire.InterfaceValue(new(%s), %s)", c.Expr(e.Iface, ""), e.Var)
	case "struct":
		var q []string
		for _, f := range e.Fields {
			q = append(q, fmt.Sprintf("%q", f))
		}
		if len(q) == 0 {
			return fmt.Sprintf("wire.Struct(new(%s))", c.Expr(e.Struct, "")) // no field is injected
		}
		return fmt.Sprintf("wire.Struct(new(%s), %s)", c.Expr(e.Struct, ""), strings.Join(q, ", "))
	case "fieldsof":
		var q []string
		for _, f := range e.Fields {
			q = append(q, fmt.Sprintf("%q", f))
		}
		t := c.Expr(e.Struct, "")
		if e.Ptr {
			t = "*" + t
		}
		if e.NilPtr {
			return fmt.Sprintf("wire.FieldsOf((*%s)(nil), %s)", t, strings.Join(q, ", "))
		}
		return fmt.Sprintf("wire.FieldsOf(new(%s), %s)", t, strings.Join(q, ", "))
	}
	return "nil"
}

// WireFileSource renders one wire file.
func WireFileSource(w *spec.WCase, f *spec.WFile) string {
	c := w.Spec
	// per-file import style: some external packages are imported without alias in this file
	saved := map[int]string{}
	for _, key := range f.ExtPlain {
		for i := range c.Exts {
			if c.Exts[i].Key == key {
				saved[i] = c.Exts[i].Alias
				c.Exts[i].Alias = ""
			}
		}
	}
	defer func() {
		for i, a := range saved {
			c.Exts[i].Alias = a
		}
	}()
	var body strings.Builder
	if f.VarBlock && len(f.Sets) > 0 {
		body.WriteString("var (\n")
	}
	for i := range f.Sets {
		s := &f.Sets[i]
		if s.AliasOf != "" {
			if f.VarBlock {
				fmt.Fprintf(&body, "\t%s = %s\n", s.Name, s.AliasOf)
			} else {
				fmt.Fprintf(&body, "var %s = %s\n\n", s.Name, s.AliasOf)
			}
			continue
		}
		if f.VarBlock {
			fmt.Fprintf(&body, "\t%s = wire.NewSet(\n", s.Name)
		} else if s.Paren {
			fmt.Fprintf(&body, "var %s = (wire.NewSet(\n", s.Name)
		} else {
			fmt.Fprintf(&body, "var %s = wire.NewSet(\n", s.Name)
		}
		for j := range s.Elems {
			fmt.Fprintf(&body, "\t%s,\n", wireElem(w, &s.Elems[j]))
		}
		if f.VarBlock {
			body.WriteString("\t)\n")
		} else if s.Paren {
			body.WriteString("))\n\n")
		} else {
			body.WriteString(")\n\n")
		}
	}
	if f.VarBlock && len(f.Sets) > 0 {
		body.WriteString(")\n\n")
	}
	for i := range f.Injectors {
		in := &f.Injectors[i]
		var ps []string
		for k, a := range in.Args {
			ps = append(ps, fmt.Sprintf("a%d %s", k, c.Expr(a, "")))
		}
		res := c.Expr(in.Want, "")
		if in.Err {
			res = "(" + res + ", error)"
		}
		if in.Panic {
			// the idiom of the wire documentation: panic(wire.Build(...)), no return statement
			fmt.Fprintf(&body, "func %s(%s) %s {\n\tpanic(wire.Build(\n", in.Name, strings.Join(ps, ", "), res)
			for j := range in.Elems {
				fmt.Fprintf(&body, "\t\t%s,\n", wireElem(w, &in.Elems[j]))
			}
			body.WriteString("\t))\n}\n\n")
			continue
		}
		fmt.Fprintf(&body, "func %s(%s) %s {\n\twire.Build(\n", in.Name, strings.Join(ps, ", "), res)
		for j := range in.Elems {
			fmt.Fprintf(&body, "\t\t%s,\n", wireElem(w, &in.Elems[j]))
		}
		z := zeroLit(c, in.Want)
		if in.Err {
			fmt.Fprintf(&body, "\t)\n\treturn %s, nil\n}\n\n", z)
		} else {
			fmt.Fprintf(&body, "\t)\n\treturn %s\n}\n\n", z)
		}
	}
	src := withImports(c, UserPkg, body.String())
	src = strings.Replace(src, "import (\n", "import (\n\t\"github.com/google/wire\"\n", 1)
	if !strings.Contains(src, "import (") {
		src = strings.Replace(src, "package "+UserPkg+"\n\n", "package "+UserPkg+"\n\nimport \"github.com/google/wire\"\n\n", 1)
	}
	// with per-file plain imports two packages may have the same local name: only the plain one
	// is meant in this file
	for _, key := range f.ExtPlain {
		pe := c.Ext(key)
		for i := range c.Exts {
			o := &c.Exts[i]
			if o.Key != key && o.Alias == "" && o.Name == pe.Name {
				src = strings.Replace(src, "\t\""+Module+"/"+o.Path+"\"\n", "", 1)
			}
		}
	}
	if f.WireAlias != "" {
		// google/wire imported under another name
		src = strings.ReplaceAll(src, "wire.", f.WireAlias+".")
		src = strings.Replace(src, "\"github.com/google/wire\"", f.WireAlias+" \"github.com/google/wire\"", 1)
	}
	if f.Tag {
		if f.LegacyTag {
			src = "//go:build wireinject\n// +build wireinject\n\n" + src
		} else {
			src = "//go:build wireinject\n\n" + src
		}
	}
	return src
}

// WireGlueSource renders the inner test glue for a package copy: adapters call the injectors
// with parameters in the given order.
func WireGlueSource(c *spec.Case, ads []AdapterSpec) string { return GlueSource(c, ads) }

func zeroLit(c *spec.Case, id spec.TypeID) string {
	t := c.T(id)
	switch t.Kind {
	case spec.KPtr, spec.KIface, spec.KSlice, spec.KMap, spec.KChan, spec.KFunc, spec.KAIface:
		return "nil"
	case spec.KNBasic, spec.KBasic:
		switch t.Basic {
		case "string":
			return "\"\""
		case "bool":
			return "false"
		}
		return "0"
	}
	return c.Expr(id, "") + "{}"
}
