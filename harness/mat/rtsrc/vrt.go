// Package vrt is the inner runtime linked into every generated scratch package.
// It contains no oracle and no randomness: instrumented providers call Call/Val,
// the controller owns the schedule at provider granularity inside a testing/synctest
// bubble, and everything observed is written out as JSON for the outer property.
package vrt

import (
	"bufio"
	"context"
	"encoding/json"
	"errors"
	"fmt"
	"os"
	"reflect"
	"regexp"
	"runtime"
	"sort"
	"strconv"
	"strings"
	"sync"
	"testing"
	"testing/synctest"
	"time"
)

// ---------------------------------------------------------------- hashing

func Mix(vals ...uint32) uint32 {
	h := uint32(2166136261)
	for _, v := range vals {
		for i := 0; i < 4; i++ {
			h ^= (v >> (8 * i)) & 0xff
			h *= 16777619
		}
	}
	h = (h ^ (h >> 31)) & 0x7fffffff
	if h == 0 {
		h = 1
	}
	return h
}

type ctxKey struct{}

func CtxHash(ctx context.Context) uint32 {
	if ctx == nil {
		return 0
	}
	if v, ok := ctx.Value(ctxKey{}).(uint32); ok {
		return v
	}
	return 0
}

// MkCtx returns a context carrying hash h (what a context-returning provider produces).
func MkCtx(h uint32) context.Context { return context.WithValue(context.Background(), ctxKey{}, h) }

var (
	chanMu  sync.Mutex
	chanReg = map[uintptr]uint32{}
)

func RegChan(c any, h uint32) {
	chanMu.Lock()
	chanReg[reflect.ValueOf(c).Pointer()] = h
	chanMu.Unlock()
}

func ChanHash(c any) uint32 {
	v := reflect.ValueOf(c)
	if !v.IsValid() || v.IsNil() {
		return 0
	}
	chanMu.Lock()
	defer chanMu.Unlock()
	return chanReg[v.Pointer()]
}

func Atoi(s string) uint32 {
	n, err := strconv.ParseUint(s, 10, 32)
	if err != nil {
		return 0
	}
	return uint32(n)
}

func Itoa(h uint32) string { return strconv.FormatUint(uint64(h), 10) }

// ---------------------------------------------------------------- plans and records

type Plan struct {
	Inj      string            `json:"inj"`
	ID       int               `json:"id"`
	Mode     string            `json:"mode"`   // ctl | free
	Policy   string            `json:"policy"` // fifo | lifo | starve | holdasync | choices
	Starve   int               `json:"starve"`
	Choices  []int             `json:"choices"`
	Fail     []int             `json:"fail"`
	CancelAt int               `json:"cancelAt"` // -2 none, -1 before the call, k>=0 after the k-th release
	Args     map[string]uint32 `json:"args"`     // type id -> hash; "ctx" -> context hash
	Repeat   int               `json:"repeat"`
	Async    []int             `json:"async"`   // provider ids that are Async in this injector
	Latency  []int             `json:"latency"` // free mode: microseconds per call index
	Yields   bool              `json:"yields"`  // gate the statement-level yield points of the instrumented band file too
}

type Event struct {
	K    string   `json:"k"` // enter | release | exit | cancel | return | val
	P    int      `json:"p"`
	Args []uint32 `json:"a,omitempty"`
	Err  bool     `json:"e,omitempty"`
}

type Exec struct {
	Inj       string   `json:"inj"`
	Plan      int      `json:"plan"`
	Rep       int      `json:"rep"`
	Events    []Event  `json:"ev"`
	Returned  bool     `json:"returned"`
	Result    uint32   `json:"result"`
	HasErr    bool     `json:"hasErr"`  // signature has an error result
	ErrNil    bool     `json:"errNil"`  // returned error is nil
	ErrProv   int      `json:"errProv"` // provider id whose error was returned (-1 none)
	ErrKind   string   `json:"errKind"` // nil | provider | canceled | deadline | other
	ErrText   string   `json:"errText,omitempty"`
	Deadlock  bool     `json:"deadlock"`
	Panic     string   `json:"panic,omitempty"`
	Alive     []string `json:"alive,omitempty"`   // band goroutines alive at the first quiescence after return
	Gated     []int    `json:"gated,omitempty"`   // providers still gated when the injector returned
	Blocked   []string `json:"blocked,omitempty"` // band goroutines blocked forever after everything was released
	Stacks    string   `json:"stacks,omitempty"`
	HoldSet   []int    `json:"hold,omitempty"` // holdasync: async providers inside their function at the all-async quiescence
	HoldSeen  bool     `json:"holdSeen,omitempty"`
	Cancelled bool     `json:"cancelled,omitempty"`
	CancelCtx string   `json:"cancelCtx,omitempty"` // state at the moment of cancellation: "gated=n blockedThreads=m"
	Leaked    bool     `json:"leaked,omitempty"`    // bubble exit reported blocked goroutines
}

// ProvErr is the error returned by a failing provider.
type ProvErr struct{ P int }

func (e *ProvErr) Error() string { return "P" + strconv.Itoa(e.P) }

// ---------------------------------------------------------------- controlled state

type waiter struct {
	p    int
	seq  int
	gate chan struct{}
}

type state struct {
	mu      sync.Mutex
	plan    *Plan
	events  []Event
	waiting []*waiter
	seq     int
	fail    map[int]bool
	async   map[int]bool
	free    bool
	plain   bool
	callIdx int
}

var (
	curMu sync.Mutex
	cur   *state
)

func current() *state {
	curMu.Lock()
	defer curMu.Unlock()
	return cur
}

func setCurrent(s *state) {
	curMu.Lock()
	cur = s
	curMu.Unlock()
}

func (s *state) record(e Event) {
	s.mu.Lock()
	s.events = append(s.events, e)
	s.mu.Unlock()
}

// Call is invoked at the top of every instrumented provider.
func Call(pid int, args ...uint32) (uint32, error) {
	s := current()
	base := Mix(append([]uint32{uint32(pid)}, args...)...)
	if s == nil {
		return base, nil
	}
	if s.free {
		return freeCall(s, pid, base, args)
	}
	if s.plain {
		failed := s.fail[pid]
		s.mu.Lock()
		s.events = append(s.events, Event{K: "enter", P: pid, Args: append([]uint32{}, args...)}, Event{K: "exit", P: pid, Err: failed})
		s.mu.Unlock()
		if failed {
			return base, &ProvErr{pid}
		}
		return base, nil
	}
	s.mu.Lock()
	s.events = append(s.events, Event{K: "enter", P: pid, Args: append([]uint32{}, args...)})
	w := &waiter{p: pid, seq: s.seq, gate: make(chan struct{})}
	s.seq++
	s.waiting = append(s.waiting, w)
	s.mu.Unlock()
	<-w.gate
	failed := s.fail[pid]
	s.record(Event{K: "exit", P: pid, Err: failed})
	if failed {
		return base, &ProvErr{pid}
	}
	return base, nil
}

// YieldBase is added to the id of a yield point to form its waiter id.
const YieldBase = 200000

// Yield is called before every top-level statement of an instrumented emitted function
// (main thread and goroutine bodies). In controlled mode with Plan.Yields it is a gate like
// a provider call, which lets the controller interleave threads between two statements of
// the emitted code (e.g. between close(ch) and the next assignment).
func Yield(id int) {
	s := current()
	if s == nil || s.free || s.plain || !s.plan.Yields {
		return
	}
	s.mu.Lock()
	w := &waiter{p: YieldBase + id, seq: s.seq, gate: make(chan struct{})}
	s.seq++
	s.waiting = append(s.waiting, w)
	s.mu.Unlock()
	<-w.gate
}

// Val is invoked when an injected constant expression is evaluated.
func Val(vid int, h uint32) uint32 {
	s := current()
	if s != nil {
		if s.free {
			freeVal(100000 + vid)
		} else {
			s.record(Event{K: "val", P: 100000 + vid})
		}
	}
	return h
}

// ---------------------------------------------------------------- adapters

// Adapter calls one generated injector: it builds the parameters from the hashes in
// args, and returns the hash of the result.
type Adapter struct {
	Name   string
	HasErr bool
	Call   func(ctx context.Context, args map[string]uint32) (uint32, error)
}

var adapters = map[string]*Adapter{}

func Register(a *Adapter) { adapters[a.Name] = a }

// ---------------------------------------------------------------- controller

var reBand = regexp.MustCompile(`(\S*_band\.go:\d+)`)

func myBubble() string {
	buf := make([]byte, 256)
	n := runtime.Stack(buf, false)
	head := string(buf[:n])
	if i := strings.IndexByte(head, '\n'); i >= 0 {
		head = head[:i]
	}
	if i := strings.Index(head, "synctest bubble "); i >= 0 {
		rest := head[i+len("synctest bubble "):]
		j := 0
		for j < len(rest) && rest[j] >= '0' && rest[j] <= '9' {
			j++
		}
		return "synctest bubble " + rest[:j]
	}
	return ""
}

// bandGoroutines returns, for every goroutine of this bubble (other than the caller)
// whose stack contains a frame of a *_band.go file, "state @ file:line" of the
// innermost such frame; full is the concatenation of their stacks.
func bandGoroutines(bubble string) (sites []string, full string) {
	buf := make([]byte, 1<<20)
	n := runtime.Stack(buf, true)
	dump := string(buf[:n])
	var sb strings.Builder
	for _, g := range strings.Split(dump, "\n\n") {
		head := g
		if i := strings.IndexByte(g, '\n'); i >= 0 {
			head = g[:i]
		}
		if bubble == "" || !strings.Contains(head, bubble+"]") && !strings.Contains(head, bubble+",") {
			continue
		}
		if strings.Contains(head, "[running") {
			continue
		}
		m := reBand.FindString(g)
		if m == "" {
			continue
		}
		st := head
		if i := strings.IndexByte(head, '['); i >= 0 {
			st = head[i+1:]
			if j := strings.IndexAny(st, ",]"); j >= 0 {
				st = st[:j]
			}
		}
		inProvider := strings.Contains(g, "vrt.Call(")
		site := st + " @ " + shortFile(m)
		if inProvider {
			site = "in-provider @ " + shortFile(m)
		}
		sites = append(sites, site)
		sb.WriteString(g)
		sb.WriteString("\n\n")
	}
	sort.Strings(sites)
	return sites, sb.String()
}

func shortFile(s string) string {
	if i := strings.LastIndexByte(s, '/'); i >= 0 {
		return s[i+1:]
	}
	return s
}

func isClosed(ch chan struct{}) bool {
	select {
	case <-ch:
		return true
	default:
		return false
	}
}

func classifyErr(ex *Exec, err error) {
	ex.ErrProv = -1
	if err == nil {
		ex.ErrNil = true
		ex.ErrKind = "nil"
		return
	}
	ex.ErrText = err.Error()
	var pe *ProvErr
	switch {
	case errors.As(err, &pe):
		ex.ErrKind = "provider"
		ex.ErrProv = pe.P
	case errors.Is(err, context.Canceled):
		ex.ErrKind = "canceled"
	case errors.Is(err, context.DeadlineExceeded):
		ex.ErrKind = "deadline"
	default:
		ex.ErrKind = "other"
	}
}

func runCtl(t *testing.T, a *Adapter, p *Plan, rep int) (ex *Exec) {
	ex = &Exec{Inj: p.Inj, Plan: p.ID, Rep: rep, HasErr: a.HasErr, ErrProv: -1}
	st := &state{plan: p, fail: map[int]bool{}, async: map[int]bool{}}
	for _, f := range p.Fail {
		st.fail[f] = true
	}
	for _, f := range p.Async {
		st.async[f] = true
	}
	defer func() {
		setCurrent(nil)
		if r := recover(); r != nil {
			msg := fmt.Sprint(r)
			if strings.Contains(msg, "blocked goroutines remain") || strings.Contains(msg, "deadlock") {
				ex.Leaked = true
			} else {
				ex.Panic = "controller: " + msg
			}
		}
		st.mu.Lock()
		ex.Events = st.events
		st.mu.Unlock()
	}()
	synctest.Test(t, func(t *testing.T) {
		setCurrent(st)
		bubble := myBubble()
		base := context.WithValue(context.Background(), ctxKey{}, p.Args["ctx"])
		ctx, cancel := context.WithCancel(base)
		doCancel := func() {
			st.mu.Lock()
			g := len(st.waiting)
			st.mu.Unlock()
			sites, _ := bandGoroutines(bubble)
			blocked := 0
			for _, s := range sites {
				if !strings.HasPrefix(s, "in-provider") {
					blocked++
				}
			}
			ex.Cancelled = true
			ex.CancelCtx = fmt.Sprintf("gated=%d blockedThreads=%d", g, blocked)
			st.record(Event{K: "cancel"})
			cancel()
		}
		if p.CancelAt == -1 {
			doCancel()
		}
		done := make(chan struct{})
		var (
			res    uint32
			rerr   error
			ipanic string
		)
		go func() {
			defer close(done)
			defer func() {
				if r := recover(); r != nil {
					ipanic = fmt.Sprint(r)
				}
			}()
			res, rerr = a.Call(ctx, p.Args)
			st.record(Event{K: "return"})
		}()
		released := 0
		choice := 0
		for {
			synctest.Wait()
			if isClosed(done) {
				ex.Returned = true
				break
			}
			st.mu.Lock()
			w := append([]*waiter{}, st.waiting...)
			st.mu.Unlock()
			if len(w) == 0 {
				ex.Deadlock = true
				ex.Blocked, ex.Stacks = bandGoroutines(bubble)
				break
			}
			sort.Slice(w, func(i, j int) bool { return w[i].p < w[j].p })
			pick := pickWaiter(st, ex, p, w, &choice)
			st.release(pick)
			released++
			if p.CancelAt >= 0 && p.CancelAt == released-1 {
				synctest.Wait()
				if !isClosed(done) {
					doCancel()
				}
			}
		}
		if ex.Returned {
			if ipanic != "" {
				ex.Panic = ipanic
			} else {
				ex.Result = res
				classifyErr(ex, rerr)
			}
			// state at return: who is still alive?
			synctest.Wait()
			st.mu.Lock()
			for _, w := range st.waiting {
				ex.Gated = append(ex.Gated, w.p)
			}
			// a thread held at a yield point at the moment of return is a live goroutine too
			st.mu.Unlock()
			sort.Ints(ex.Gated)
			ex.Alive, _ = bandGoroutines(bubble)
			// release everything that is still gated ("will exit without further action")
			for {
				synctest.Wait()
				st.mu.Lock()
				w := append([]*waiter{}, st.waiting...)
				st.mu.Unlock()
				if len(w) == 0 {
					break
				}
				sort.Slice(w, func(i, j int) bool { return w[i].p < w[j].p })
				st.release(w[0])
			}
			synctest.Wait()
			ex.Blocked, ex.Stacks = bandGoroutines(bubble)
		}
		// clean up as far as possible so that leaked goroutines do not pile up
		cancel()
		synctest.Wait()
		setCurrent(nil)
	})
	return ex
}

func (s *state) release(w *waiter) {
	s.mu.Lock()
	for i, x := range s.waiting {
		if x == w {
			s.waiting = append(s.waiting[:i], s.waiting[i+1:]...)
			break
		}
	}
	if w.p < YieldBase {
		s.events = append(s.events, Event{K: "release", P: w.p})
	}
	s.mu.Unlock()
	close(w.gate)
}

func pickWaiter(st *state, ex *Exec, p *Plan, w []*waiter, choice *int) *waiter {
	bySeq := func(first bool) *waiter {
		best := w[0]
		for _, x := range w {
			if first && x.seq < best.seq || !first && x.seq > best.seq {
				best = x
			}
		}
		return best
	}
	switch p.Policy {
	case "lifo":
		return bySeq(false)
	case "starve":
		var others []*waiter
		for _, x := range w {
			if x.p != p.Starve {
				others = append(others, x)
			}
		}
		if len(others) > 0 {
			w = others
		}
		return w[0]
	case "holdasync":
		var sync_ []*waiter
		for _, x := range w {
			if !st.async[x.p] {
				sync_ = append(sync_, x)
			}
		}
		if len(sync_) > 0 {
			return sync_[0]
		}
		if !ex.HoldSeen {
			ex.HoldSeen = true
			for _, x := range w {
				ex.HoldSet = append(ex.HoldSet, x.p)
			}
			sort.Ints(ex.HoldSet)
		}
		return w[0]
	case "choices":
		i := 0
		if *choice < len(p.Choices) {
			i = p.Choices[*choice] % len(w)
			if i < 0 {
				i = -i
			}
		}
		*choice++
		return w[i]
	}
	return bySeq(true)
}

// ---------------------------------------------------------------- free-running mode (-race)

// Events are recorded WITHOUT any synchronisation (a mutex or atomic in the recorder
// would create happens-before edges and could hide the races under test): every
// provider / value id owns one preallocated slot that is written with plain stores by
// the (single) goroutine that calls it and read only after the injector has returned.
type freeRec struct {
	pid         int
	calls       int
	enter, exit int64
	args        []uint32
}

var freeSlots [1024]freeRec

func nanotime() int64 { return time.Now().UnixNano() }

func slotOf(pid int) int {
	if pid >= 100000 {
		return 512 + (pid-100000)%512
	}
	return pid % 512
}

func freeVal(pid int) {
	r := &freeSlots[slotOf(pid)]
	r.pid = pid
	r.calls++
	r.enter = nanotime()
	r.exit = r.enter
}

func freeCall(s *state, pid int, base uint32, args []uint32) (uint32, error) {
	r := &freeSlots[slotOf(pid)]
	t0 := nanotime()
	lat := 0
	if n := len(s.plan.Latency); n > 0 {
		lat = s.plan.Latency[pid%n]
	}
	switch {
	case lat <= 0:
	case lat < 20:
		for k := 0; k < lat; k++ {
			runtime.Gosched()
		}
	default:
		time.Sleep(time.Duration(lat) * time.Microsecond)
	}
	r.pid = pid
	r.calls++
	r.enter = t0
	r.args = append([]uint32{}, args...)
	r.exit = nanotime()
	if s.fail[pid] {
		return base, &ProvErr{pid}
	}
	return base, nil
}

func runFree(t *testing.T, a *Adapter, p *Plan, rep int) (ex *Exec) {
	ex = &Exec{Inj: p.Inj, Plan: p.ID, Rep: rep, HasErr: a.HasErr, ErrProv: -1}
	st := &state{plan: p, fail: map[int]bool{}, free: true}
	for _, f := range p.Fail {
		st.fail[f] = true
	}
	for i := range freeSlots {
		freeSlots[i] = freeRec{}
	}
	setCurrent(st)
	defer setCurrent(nil)
	ctx := context.WithValue(context.Background(), ctxKey{}, p.Args["ctx"])
	done := make(chan struct{})
	var (
		res  uint32
		rerr error
	)
	go func() {
		defer close(done)
		defer func() {
			if r := recover(); r != nil {
				ex.Panic = fmt.Sprint(r)
			}
		}()
		res, rerr = a.Call(ctx, p.Args)
	}()
	select {
	case <-done:
		ex.Returned = true
	case <-time.After(20 * time.Second):
		ex.Returned = false // watchdog: inconclusive, never a violation
		return ex
	}
	// goroutines of the injector still alive right after return?
	buf := make([]byte, 1<<20)
	n := runtime.Stack(buf, true)
	for _, g := range strings.Split(string(buf[:n]), "\n\n") {
		if m := reBand.FindString(g); m != "" && !strings.Contains(g, "vrt.runFree") {
			ex.Alive = append(ex.Alive, shortFile(m))
		}
	}
	ex.Result = res
	classifyErr(ex, rerr)
	recs := append([]freeRec{}, freeSlots[:]...)
	// emit events ordered by time: enter/exit
	type te struct {
		t int64
		e Event
	}
	var tes []te
	for _, r := range recs {
		if r.calls == 0 {
			continue
		}
		for k := 0; k < r.calls; k++ { // a provider called twice shows up twice
			if r.pid >= 100000 {
				tes = append(tes, te{r.enter, Event{K: "val", P: r.pid}})
				continue
			}
			tes = append(tes, te{r.enter, Event{K: "enter", P: r.pid, Args: r.args}})
			tes = append(tes, te{r.exit, Event{K: "exit", P: r.pid, Err: st.fail[r.pid]}})
		}
	}
	sort.SliceStable(tes, func(i, j int) bool { return tes[i].t < tes[j].t })
	for _, x := range tes {
		ex.Events = append(ex.Events, x.e)
	}
	return ex
}

// runPlain executes the injector directly (sequential code: no schedule to own).
func runPlain(t *testing.T, a *Adapter, p *Plan, rep int) (ex *Exec) {
	ex = &Exec{Inj: p.Inj, Plan: p.ID, Rep: rep, HasErr: a.HasErr, ErrProv: -1}
	st := &state{plan: p, fail: map[int]bool{}, plain: true}
	for _, f := range p.Fail {
		st.fail[f] = true
	}
	setCurrent(st)
	defer setCurrent(nil)
	func() {
		defer func() {
			if r := recover(); r != nil {
				ex.Panic = fmt.Sprint(r)
			}
		}()
		ctx := context.WithValue(context.Background(), ctxKey{}, p.Args["ctx"])
		res, err := a.Call(ctx, p.Args)
		ex.Returned = true
		ex.Result = res
		classifyErr(ex, err)
	}()
	st.mu.Lock()
	ex.Events = st.events
	st.mu.Unlock()
	return ex
}

// ---------------------------------------------------------------- entry point

// RunAll executes the plans in $VRT_PLANS starting at $VRT_START and appends one JSON
// line per execution to $VRT_OUT, preceded by a BEGIN marker line so that a crash of
// the process (e.g. "close of closed channel" in a goroutine) is attributable.
func RunAll(t *testing.T) {
	path := os.Getenv("VRT_PLANS")
	if path == "" {
		t.Skip("no plans")
	}
	b, err := os.ReadFile(path)
	if err != nil {
		t.Fatal(err)
	}
	var plans []*Plan
	if err := json.Unmarshal(b, &plans); err != nil {
		t.Fatal(err)
	}
	start, _ := strconv.Atoi(os.Getenv("VRT_START"))
	out, err := os.OpenFile(os.Getenv("VRT_OUT"), os.O_APPEND|os.O_CREATE|os.O_WRONLY, 0o644)
	if err != nil {
		t.Fatal(err)
	}
	defer out.Close()
	w := bufio.NewWriter(out)
	for i := start; i < len(plans); i++ {
		p := plans[i]
		a := adapters[p.Inj]
		if a == nil {
			fmt.Fprintf(w, "{\"inj\":%q,\"plan\":%d,\"panic\":\"no adapter\"}\n", p.Inj, p.ID)
			continue
		}
		reps := p.Repeat
		if reps < 1 {
			reps = 1
		}
		for r := 0; r < reps; r++ {
			fmt.Fprintf(w, "BEGIN %d %d\n", i, r)
			w.Flush()
			var ex *Exec
			if p.Mode == "free" {
				ex = runFree(t, a, p, r)
			} else if p.Mode == "plain" {
				ex = runPlain(t, a, p, r)
			} else {
				ex = runCtl(t, a, p, r)
			}
			if os.Getenv("VRT_STACKS") == "" {
				if len(ex.Stacks) > 6000 {
					ex.Stacks = ex.Stacks[:6000]
				}
			}
			line, _ := json.Marshal(ex)
			w.Write(line)
			w.WriteByte('\n')
			w.Flush()
		}
	}
}
