module verifharness

go 1.25

require (
	golang.org/x/tools v0.42.0
	pgregory.net/rapid v1.3.0
)
