// Package kf loads /verif/known_findings.json and matches observed failures against it.
// A failure is a known finding only if BOTH the case trigger features and the failure
// signature match an open entry of the same property.
package kf

import (
	"encoding/json"
	"os"
	"regexp"
	"strings"
)

type Entry struct {
	ID       string   `json:"id"`
	Property string   `json:"property"`
	Status   string   `json:"status"` // open | fixed
	Commit   string   `json:"commit,omitempty"`
	Title    string   `json:"title"`
	Trigger  []string `json:"trigger"`   // all of these case features must be present
	Kind     string   `json:"kind"`      // failure kind
	Site     string   `json:"site"`      // regexp over the failure site/message
	Witness  string   `json:"witness"`   // replays/<file>
	Note     string   `json:"note,omitempty"`
	re       *regexp.Regexp
}

type File struct {
	Entries []*Entry `json:"findings"`
	Fixed   []string `json:"fixed_log,omitempty"`
}

func Load(path string) (*File, error) {
	b, err := os.ReadFile(path)
	if err != nil {
		if os.IsNotExist(err) {
			return &File{}, nil
		}
		return nil, err
	}
	f := &File{}
	if err := json.Unmarshal(b, f); err != nil {
		return nil, err
	}
	for _, e := range f.Entries {
		if e.Site != "" {
			re, err := regexp.Compile(e.Site)
			if err != nil {
				return nil, err
			}
			e.re = re
		}
	}
	return f, nil
}

func (f *File) ByID(id string) *Entry {
	for _, e := range f.Entries {
		if e.ID == id {
			return e
		}
	}
	return nil
}

// Match returns the open entry of the property matching the (features, kind, site) triple.
func (f *File) Match(property string, features map[string]bool, kind, site string) *Entry {
	for _, e := range f.Entries {
		if e.Property != property || e.Status != "open" {
			continue
		}
		if e.Kind != "" && e.Kind != kind {
			continue
		}
		ok := true
		for _, t := range e.Trigger {
			if strings.HasPrefix(t, "gate:") {
				continue // generator gate, not a case feature
			}
			neg := strings.HasPrefix(t, "!")
			t = strings.TrimPrefix(t, "!")
			if features[t] == neg {
				ok = false
				break
			}
		}
		if !ok {
			continue
		}
		if e.re != nil && !e.re.MatchString(site) {
			continue
		}
		return e
	}
	return nil
}
