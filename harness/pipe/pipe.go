// Package pipe snapshots /repo, builds the tools from the snapshot and runs commands
// with the offline Go environment.
package pipe

import (
	"bytes"
	"context"
	"errors"
	"fmt"
	"os"
	"os/exec"
	"path/filepath"
	"strings"
	"syscall"
	"time"
)

const GoRoot = "/opt/veriftools/go1.26.8"

// RepoDir is the tree under verification.
func RepoDir() string {
	if d := os.Getenv("VERIF_REPO"); d != "" {
		return d
	}
	return "/repo"
}

// Env returns the offline Go environment used for every build and for tools that
// shell out to `go list`.
func Env(extra ...string) []string {
	keep := []string{}
	for _, kv := range os.Environ() {
		k := kv[:strings.IndexByte(kv+"=", '=')]
		switch k {
		case "PATH", "GOTOOLCHAIN", "GOPROXY", "GOFLAGS", "GOSUMDB", "GOWORK", "GOROOT", "GOMAXPROCS", "GODEBUG", "GORACE", "GOCACHE":
			continue
		}
		keep = append(keep, kv)
	}
	path := os.Getenv("PATH")
	keep = append(keep,
		"PATH="+GoRoot+"/bin:"+path,
		"GOROOT="+GoRoot,
		"GOTOOLCHAIN=local", "GOPROXY=off", "GOFLAGS=-mod=mod", "GOSUMDB=off", "GOWORK=off",
		"CGO_ENABLED=1",
	)
	if gc := os.Getenv("VERIF_GOCACHE"); gc != "" {
		keep = append(keep, "GOCACHE="+gc)
	}
	return append(keep, extra...)
}

// ScratchRoot returns a directory for scratch data (tmpfs if available).
func ScratchRoot() string {
	if d := os.Getenv("VERIF_SCRATCH"); d != "" {
		return d
	}
	if st, err := os.Stat("/dev/shm"); err == nil && st.IsDir() {
		return "/dev/shm"
	}
	return os.TempDir()
}

type Result struct {
	Stdout, Stderr string
	Exit           int
	Err            error // non-exit errors (start failure, timeout)
	TimedOut       bool
	Dur            time.Duration
}

type Cmd struct {
	Dir     string
	Env     []string
	Args    []string
	Stdin   string
	Timeout time.Duration
}

// Run executes a command, capturing output. Exit is -1 when the process did not exit normally.
func Run(c Cmd) Result {
	if c.Timeout == 0 {
		c.Timeout = 10 * time.Minute
	}
	ctx, cancel := context.WithTimeout(context.Background(), c.Timeout)
	defer cancel()
	cmd := exec.CommandContext(ctx, c.Args[0], c.Args[1:]...)
	cmd.Dir = c.Dir
	if c.Env != nil {
		cmd.Env = c.Env
	} else {
		cmd.Env = Env()
	}
	cmd.SysProcAttr = &syscall.SysProcAttr{Setpgid: true}
	cmd.Cancel = func() error {
		return syscall.Kill(-cmd.Process.Pid, syscall.SIGKILL)
	}
	cmd.WaitDelay = 2 * time.Second
	var so, se bytes.Buffer
	cmd.Stdout, cmd.Stderr = &so, &se
	if c.Stdin != "" {
		cmd.Stdin = strings.NewReader(c.Stdin)
	}
	t0 := time.Now()
	err := cmd.Run()
	r := Result{Stdout: so.String(), Stderr: se.String(), Dur: time.Since(t0)}
	if err != nil {
		var ee *exec.ExitError
		if errors.As(err, &ee) {
			r.Exit = ee.ExitCode()
			if ctx.Err() != nil {
				r.TimedOut = true
				r.Err = ctx.Err()
			}
		} else {
			r.Exit = -1
			r.Err = err
			if ctx.Err() != nil {
				r.TimedOut = true
			}
		}
	}
	return r
}

// Snapshot describes a scratch copy of the repository with tools built from it.
type Snapshot struct {
	Root string // scratch directory (removed by Close)
	Src  string // copy of the working tree
	CLI  string // kessoku binary built from Src
}

// NewSnapshot copies the working tree (without .git) and builds the CLI with -tags verif.
func NewSnapshot() (*Snapshot, error) {
	root, err := os.MkdirTemp(ScratchRoot(), "verif-snap-")
	if err != nil {
		return nil, err
	}
	s := &Snapshot{Root: root, Src: filepath.Join(root, "src"), CLI: filepath.Join(root, "kessoku")}
	r := Run(Cmd{Args: []string{"rsync", "-a", "--exclude", ".git", RepoDir() + "/", s.Src + "/"}})
	if r.Exit != 0 {
		s.Close()
		return nil, fmt.Errorf("rsync: %s %v", r.Stderr, r.Err)
	}
	// go.work would pull in ./tools; we build the main module alone.
	buildArgs := []string{"go", "build", "-tags", "verif"}
	if os.Getenv("VERIF_COVER") != "" {
		// development aid: statement coverage of the CLI under the generated inputs (GOCOVERDIR)
		buildArgs = append(buildArgs, "-cover", "-coverpkg=github.com/mazrean/kessoku/...")
	}
	buildArgs = append(buildArgs, "-o", s.CLI, "./cmd/kessoku")
	r = Run(Cmd{Dir: s.Src, Args: buildArgs, Timeout: 10 * time.Minute})
	if r.Exit != 0 {
		s.Close()
		return nil, fmt.Errorf("build CLI from snapshot failed:\n%s%s %v", r.Stdout, r.Stderr, r.Err)
	}
	return s, nil
}

func (s *Snapshot) Close() {
	if s != nil && s.Root != "" {
		_ = os.RemoveAll(s.Root)
	}
}

// OpenSnapshot attaches to a snapshot prepared by the driver (env VERIF_SNAP).
func OpenSnapshot() (*Snapshot, error) {
	root := os.Getenv("VERIF_SNAP")
	if root == "" {
		return nil, errors.New("VERIF_SNAP not set")
	}
	s := &Snapshot{Root: root, Src: filepath.Join(root, "src"), CLI: filepath.Join(root, "kessoku")}
	if _, err := os.Stat(s.CLI); err != nil {
		return nil, err
	}
	return s, nil
}

// ModCache returns GOMODCACHE.
func ModCache() string {
	if d := os.Getenv("GOMODCACHE"); d != "" {
		return d
	}
	home, _ := os.UserHomeDir()
	return filepath.Join(home, "go", "pkg", "mod")
}

// CloneCache makes dst a hard-link clone of the warm base build cache (instant, no space):
// Go's cache never rewrites an entry in place, so clones may diverge freely. Without a base
// cache dst is just created empty (first builds are slow then, nothing else changes).
func CloneCache(base, dst string) error {
	_ = os.RemoveAll(dst)
	if st, err := os.Stat(base); err == nil && st.IsDir() {
		r := Run(Cmd{Args: []string{"cp", "-al", base, dst}, Timeout: 5 * time.Minute})
		if r.Exit == 0 {
			return nil
		}
		_ = os.RemoveAll(dst)
	}
	return os.MkdirAll(dst, 0o755)
}
