// Package ev collects per-shard statistics and writes evidence files.
package ev

import (
	"encoding/json"
	"fmt"
	"os"
	"path/filepath"
	"sort"
	"sync"
)

// Report is what one shard (one process running one rapid property) produces.
type Report struct {
	Property    string              `json:"property"`
	Shard       int                 `json:"shard"`
	Seed        uint64              `json:"seed"`
	Cases       int                 `json:"cases"`       // rapid cases drawn
	Evaluations int                 `json:"evaluations"` // executions / CLI runs / oracle evaluations
	Nontrivial  map[string]struct{} `json:"-"`
	NontrivialL []string            `json:"nontrivial"` // distinct canonical hashes of non-trivial cases
	Features    map[string]int      `json:"features"`
	Excluded    map[string]int      `json:"excluded"` // steered away per known finding / feature
	Discards    map[string]int      `json:"discards"`
	Known       map[string]int      `json:"known"` // known-finding hits (id -> count)
	Samples     []any               `json:"samples"`
	Failures    []Failure           `json:"failures"`
	Extra       map[string]any      `json:"extra,omitempty"`
	Inconclusive string             `json:"inconclusive,omitempty"`
	mu          sync.Mutex
}

type Failure struct {
	Msg    string `json:"msg"`
	Replay string `json:"replay"`
}

func NewReport(prop string) *Report {
	return &Report{Property: prop, Nontrivial: map[string]struct{}{}, Features: map[string]int{}, Excluded: map[string]int{}, Discards: map[string]int{}, Known: map[string]int{}, Extra: map[string]any{}}
}

func (r *Report) Feature(names ...string) {
	r.mu.Lock()
	defer r.mu.Unlock()
	for _, n := range names {
		r.Features[n]++
	}
}
func (r *Report) Exclude(name string) { r.mu.Lock(); r.Excluded[name]++; r.mu.Unlock() }
func (r *Report) Discard(name string) { r.mu.Lock(); r.Discards[name]++; r.mu.Unlock() }
func (r *Report) KnownHit(id string)  { r.mu.Lock(); r.Known[id]++; r.mu.Unlock() }
func (r *Report) Eval(n int)          { r.mu.Lock(); r.Evaluations += n; r.mu.Unlock() }
func (r *Report) Case()               { r.mu.Lock(); r.Cases++; r.mu.Unlock() }
func (r *Report) NonTrivial(hash string) {
	r.mu.Lock()
	r.Nontrivial[hash] = struct{}{}
	r.mu.Unlock()
}
func (r *Report) Sample(max int, s any) {
	r.mu.Lock()
	defer r.mu.Unlock()
	if len(r.Samples) < max {
		r.Samples = append(r.Samples, s)
	}
}
func (r *Report) Fail(msg, replay string) {
	r.mu.Lock()
	r.Failures = append(r.Failures, Failure{msg, replay})
	r.mu.Unlock()
}

func (r *Report) Write(path string) error {
	r.mu.Lock()
	defer r.mu.Unlock()
	r.NontrivialL = r.NontrivialL[:0]
	for h := range r.Nontrivial {
		r.NontrivialL = append(r.NontrivialL, h)
	}
	sort.Strings(r.NontrivialL)
	b, err := json.MarshalIndent(r, "", " ")
	if err != nil {
		return err
	}
	_ = os.MkdirAll(filepath.Dir(path), 0o755)
	return os.WriteFile(path, b, 0o644)
}

func ReadReport(path string) (*Report, error) {
	b, err := os.ReadFile(path)
	if err != nil {
		return nil, err
	}
	r := NewReport("")
	if err := json.Unmarshal(b, r); err != nil {
		return nil, err
	}
	for _, h := range r.NontrivialL {
		r.Nontrivial[h] = struct{}{}
	}
	if r.Features == nil {
		r.Features = map[string]int{}
	}
	return r, nil
}

// Merge folds src into dst.
func Merge(dst, src *Report) {
	dst.Cases += src.Cases
	dst.Evaluations += src.Evaluations
	for h := range src.Nontrivial {
		dst.Nontrivial[h] = struct{}{}
	}
	add := func(d, s map[string]int) {
		for k, v := range s {
			d[k] += v
		}
	}
	add(dst.Features, src.Features)
	add(dst.Excluded, src.Excluded)
	add(dst.Discards, src.Discards)
	add(dst.Known, src.Known)
	for _, s := range src.Samples {
		if len(dst.Samples) < 5 {
			dst.Samples = append(dst.Samples, s)
		}
	}
	dst.Failures = append(dst.Failures, src.Failures...)
	for k, v := range src.Extra {
		if _, ok := dst.Extra[k]; !ok {
			dst.Extra[k] = v
		} else if a, ok := dst.Extra[k].(float64); ok {
			if b, ok := v.(float64); ok {
				dst.Extra[k] = a + b
			}
		}
	}
	if src.Inconclusive != "" {
		dst.Inconclusive = src.Inconclusive
	}
}

// Evidence is the schema of /verif/evidence/<id>.json.
type Evidence struct {
	PropertyID  string         `json:"property_id"`
	Tier        string         `json:"tier"`
	Seed        int64          `json:"seed"`
	Level       string         `json:"level"`
	Coverage    map[string]any `json:"coverage"`
	Assumptions []string       `json:"assumptions"`
	WallS       float64        `json:"wall_s"`
	Violations  int            `json:"violations"`
}

func WriteEvidence(path string, e *Evidence) error {
	b, err := json.MarshalIndent(e, "", " ")
	if err != nil {
		return err
	}
	_ = os.MkdirAll(filepath.Dir(path), 0o755)
	tmp := path + ".tmp"
	if err := os.WriteFile(tmp, b, 0o644); err != nil {
		return err
	}
	return os.Rename(tmp, path)
}

func Sprintf(f string, a ...any) string { return fmt.Sprintf(f, a...) }
