package props

import (
	"fmt"
	"os"
	"testing"

	"pgregory.net/rapid"
)

// TestDebugShape prints shape statistics of generated cases (development aid).
func TestDebugShape(t *testing.T) {
	if os.Getenv("VERIF_DEBUG") == "" {
		t.Skip()
	}
	c := setup(t, "C03")
	gen := genExec("C03", 2, 10, "", false)
	n := 0
	rapid.Check(t, func(rt *rapid.T) {
		k := gen(rt, c)
		sr := runStatic(c, k.Spec, false)
		if sr.B == nil {
			return
		}
		defer sr.B.Close()
		if sr.Exit != 0 || sr.Discard != "" {
			fmt.Println("discard", sr.Discard, sr.Exit)
			return
		}
		for name, r := range sr.B.Res {
			na := 0
			for _, u := range r.Needed {
				if u.Async {
					na++
				}
			}
			th, w := threadsOf(sr.B, name)
			fmt.Printf("wide=%v units=%d needed=%d async=%d threads=%d waits=%d\n", k.Spec.HasFeature("wide-fan"), len(r.Units), len(r.Needed), na, th, w)
			n++
			if os.Getenv("VERIF_DEBUG") == "2" && th >= 3 {
				fmt.Println(readBand(sr.B, name))
			}
		}
	})
}
