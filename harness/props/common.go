package props

import (
	"crypto/sha256"
	"encoding/hex"
	"encoding/json"
	"fmt"
	"os"
	"path/filepath"
	"strconv"
	"sync/atomic"
	"testing"
	"time"

	"pgregory.net/rapid"

	"verifharness/ev"
	"verifharness/kf"
	"verifharness/pipe"
)

// Ctx is the per-process context of a shard.
type Ctx struct {
	ID       string
	Snap     *pipe.Snapshot
	Rep      *ev.Report
	Out      string
	Tier     string
	Scratch  string
	VerifDir string
	KF       *kf.File
	Deadline time.Time
	Shard    int
	lastFail *ev.Failure
	seq      atomic.Int64
	cases    int
}

func (c *Ctx) Thorough() bool { return c.Tier == "thorough" }

// OverBudget reports whether the shard's soft wall budget is used up.
func (c *Ctx) OverBudget() bool { return !c.Deadline.IsZero() && time.Now().After(c.Deadline) }

// Dir returns a fresh scratch directory (caller removes it).
func (c *Ctx) Dir(prefix string) string {
	d, err := os.MkdirTemp(c.Scratch, prefix)
	if err != nil {
		panic(err)
	}
	return d
}

func setup(t *testing.T, id string) *Ctx {
	t.Helper()
	snap, err := pipe.OpenSnapshot()
	if err != nil {
		t.Skipf("no snapshot (run through ./check): %v", err)
	}
	c := &Ctx{ID: id, Snap: snap, Rep: ev.NewReport(id), Out: os.Getenv("VERIF_OUT"), Tier: os.Getenv("VERIF_TIER"),
		Scratch: os.Getenv("VERIF_SCRATCH_DIR"), VerifDir: os.Getenv("VERIF_DIR")}
	if c.VerifDir == "" {
		c.VerifDir = "/verif"
	}
	if c.Out == "" {
		c.Out = t.TempDir()
	}
	if c.Scratch == "" {
		c.Scratch = t.TempDir()
	}
	c.Shard, _ = strconv.Atoi(os.Getenv("VERIF_SHARD"))
	if s, err := strconv.ParseUint(os.Getenv("VERIF_SHARD_SEED"), 10, 64); err == nil {
		c.Rep.Seed = s
	}
	c.Rep.Shard = c.Shard
	if b, err := time.ParseDuration(os.Getenv("VERIF_BUDGET")); err == nil && b > 0 {
		c.Deadline = time.Now().Add(b)
	}
	c.KF, err = kf.Load(filepath.Join(c.VerifDir, "known_findings.json"))
	if err != nil {
		t.Fatalf("known_findings.json: %v", err)
	}
	return c
}

// finish writes the report; must be deferred right after setup.
func (c *Ctx) finish() {
	if c.lastFail != nil {
		dst := filepath.Join(c.VerifDir, "out", c.ID, fmt.Sprintf("violation-shard%02d.json", c.Shard))
		if b, err := os.ReadFile(c.lastFail.Replay); err == nil {
			_ = os.MkdirAll(filepath.Dir(dst), 0o755)
			if os.WriteFile(dst, b, 0o644) == nil {
				c.lastFail.Replay = dst
			}
		}
		c.Rep.Fail(c.lastFail.Msg, c.lastFail.Replay)
	}
	if c.OverBudget() {
		c.Rep.Extra["budget_exhausted_shards"] = 1.0
	}
	_ = c.Rep.Write(filepath.Join(c.Out, "report.json"))
}

// rotateCache re-clones this shard's build cache from the base every 60 cases: the objects
// of earlier scratch packages are never needed again.
func (c *Ctx) rotateCache() {
	c.cases++
	gc, base := os.Getenv("VERIF_GOCACHE"), os.Getenv("VERIF_GOCACHE_BASE")
	if c.cases%60 != 0 || gc == "" || base == "" {
		return
	}
	_ = pipe.CloneCache(base, gc)
}

// Verdict is the outcome of checking one case.
type Verdict struct {
	Fail       string          // empty = property held on this case
	Kind       string          // failure kind (for known-finding matching)
	Site       string          // failure site (for known-finding matching)
	Features   map[string]bool // case features (trigger matching + histogram)
	NonTrivial bool
	Evals      int
	Sample     any
	Discard    string // non-empty: case not judged (counted)
	Detail     string // free text kept with the first few discards of each kind
}

func sanitize(s string) string {
	out := []byte(s)
	for i, ch := range out {
		if !(ch >= 'a' && ch <= 'z' || ch >= 'A' && ch <= 'Z' || ch >= '0' && ch <= '9' || ch == '-') {
			out[i] = '_'
		}
	}
	return string(out)
}

func hashOf(v any) string {
	b, _ := json.Marshal(v)
	s := sha256.Sum256(b)
	return hex.EncodeToString(s[:8])
}

// record folds a verdict into the report; returns the failure message to raise ("" if none).
func (c *Ctx) record(cs any, v *Verdict) string {
	c.Rep.Eval(v.Evals)
	for f, on := range v.Features {
		if on {
			c.Rep.Feature(f)
		}
	}
	if v.Discard != "" {
		c.Rep.Discard(v.Discard)
		if v.Detail != "" && c.Rep.Discards[v.Discard] <= 2 {
			p := filepath.Join(c.Out, fmt.Sprintf("discard-%s-%d.json", sanitize(v.Discard), c.Rep.Discards[v.Discard]))
			b, _ := json.MarshalIndent(map[string]any{"property": c.ID, "case": cs, "discard": v.Discard, "detail": v.Detail}, "", " ")
			_ = os.WriteFile(p, b, 0o644)
		}
		return ""
	}
	if v.NonTrivial {
		c.Rep.NonTrivial(hashOf(cs))
		c.Rep.Feature("nontrivial")
	}
	if v.Sample != nil {
		c.Rep.Sample(3, v.Sample)
	}
	if v.Fail == "" {
		return ""
	}
	if e := c.KF.Match(c.ID, v.Features, v.Kind, v.Site); e != nil {
		c.Rep.KnownHit(e.ID)
		return ""
	}
	n := c.seq.Add(1)
	if os.Getenv("VERIF_SURVEY") != "" {
		// survey mode (development aid): classify and continue instead of failing
		key := "survey:" + v.Kind + " @ " + v.Site
		c.Rep.Discard(key)
		if c.Rep.Discards[key] == 1 {
			p := filepath.Join(c.Out, fmt.Sprintf("survey-%d.json", n))
			b, _ := json.MarshalIndent(map[string]any{"property": c.ID, "case": cs, "kind": v.Kind, "site": v.Site, "msg": v.Fail}, "", " ")
			_ = os.WriteFile(p, b, 0o644)
		}
		return ""
	}
	path := filepath.Join(c.Out, "fail-last.json")
	b, _ := json.MarshalIndent(map[string]any{"property": c.ID, "case": cs, "kind": v.Kind, "site": v.Site, "msg": v.Fail, "n": n}, "", " ")
	_ = os.WriteFile(path, b, 0o644)
	c.lastFail = &ev.Failure{Msg: fmt.Sprintf("[%s @ %s] %s", v.Kind, v.Site, v.Fail), Replay: path}
	return c.lastFail.Msg
}

// absorbKnown: if the failure recorded in v matches an open known finding it is counted,
// cleared, and true is returned so that the oracle can go on looking at the remaining
// executions of the case.
func (c *Ctx) absorbKnown(v *Verdict) bool {
	if v.Fail == "" {
		return false
	}
	if e := c.KF.Match(c.ID, v.Features, v.Kind, v.Site); e != nil {
		c.Rep.KnownHit(e.ID)
		v.Fail, v.Kind, v.Site = "", "", ""
		return true
	}
	return false
}

// runProperty drives gen+check under rapid.
func runProperty[C any](t *testing.T, id string, gen func(*rapid.T, *Ctx) C, check func(*Ctx, C) *Verdict) {
	c := setup(t, id)
	defer c.finish()
	rapid.Check(t, func(rt *rapid.T) {
		cs := gen(rt, c)
		c.Rep.Case()
		c.rotateCache()
		if c.OverBudget() {
			c.Rep.Discard("budget")
			return
		}
		v := check(c, cs)
		if msg := c.record(cs, v); msg != "" {
			rt.Fatalf("%s", msg)
		}
	})
}

// runReplay re-checks one saved case without rapid.
func runReplay[C any](t *testing.T, id string, check func(*Ctx, C) *Verdict) {
	c := setup(t, id)
	defer c.finish()
	path := os.Getenv("VERIF_REPLAY")
	cs, err := loadCase[C](path)
	if err != nil {
		t.Fatalf("replay file: %v", err)
	}
	v := check(c, cs)
	if msg := c.record(cs, v); msg != "" {
		t.Fatalf("%s", msg)
	}
}

func loadCase[C any](path string) (C, error) {
	var w struct {
		Case C `json:"case"`
	}
	b, err := os.ReadFile(path)
	if err != nil {
		return w.Case, err
	}
	err = json.Unmarshal(b, &w)
	return w.Case, err
}

// runWitnesses re-checks pinned witnesses of the property: open known findings must
// reproduce with a matching signature, everything else under replays/ must pass.
func runWitnesses[C any](t *testing.T, id string, check func(*Ctx, C) *Verdict, extra func(*Ctx)) {
	c := setup(t, id)
	defer c.finish()
	c.Deadline = time.Time{}
	files, _ := filepath.Glob(filepath.Join(c.VerifDir, "replays", id+"-*.json"))
	for _, f := range files {
		cs, err := loadCase[C](f)
		if err != nil {
			t.Errorf("witness %s: %v", f, err)
			continue
		}
		v := check(c, cs)
		v.NonTrivial = false
		v.Sample = nil
		if msg := c.record(cs, v); msg != "" {
			// keep the pinned file as the replay
			c.lastFail.Replay = f
			c.Rep.Fail(c.lastFail.Msg, f)
			c.lastFail = nil
			t.Errorf("witness %s: %s", filepath.Base(f), msg)
		}
		c.Rep.Feature("witness")
	}
	if extra != nil {
		extra(c)
	}
}

func jsonMarshal(v any) ([]byte, error)   { return json.Marshal(v) }
func jsonUnmarshal(b []byte, v any) error { return json.Unmarshal(b, v) }
