package props

import (
	"fmt"
	"sort"
	"strings"
	"testing"

	"pgregory.net/rapid"

	"verifharness/band"
	"verifharness/spec"
)

func genC10(rt *rapid.T, c *Ctx) KCase {
	o := spec.Opts{MinProv: 1, MaxProv: 9, MaxInjectors: 4, MaxFiles: 2}
	o.Allow = spec.AllowAll()
	for _, e := range c.KF.Entries {
		if (e.Property == "C10" || e.Property == "C09") && e.Status == "open" {
			for _, t := range e.Trigger {
				if strings.HasPrefix(t, "gate:") {
					delete(o.Allow, strings.TrimPrefix(t, "gate:"))
				}
			}
		}
	}
	o.OnExclude = func(f string) { c.Rep.Exclude(f) }
	return KCase{Spec: spec.Gen(rt, o)}
}

func checkC10(c *Ctx, k KCase) *Verdict {
	v := &Verdict{Features: caseFeatures(k.Spec)}
	sr := runStatic(c, k.Spec, false)
	if sr.B != nil {
		defer sr.B.Close()
	}
	if sr.Discard != "" {
		v.Discard, v.Detail = sr.Discard, sr.Detail
		return v
	}
	if sr.Exit != 0 {
		v.Discard, v.Detail = "cli-rejected(C09)", tail(sr.Stderr, 600)
		return v
	}
	b := sr.B
	if sr.Unparsable != "" {
		v.Discard = "band-compile-error(C04)"
		return v
	}
	var names []string
	for n := range b.Inj {
		names = append(names, n)
	}
	sort.Strings(names)
	for _, n := range names {
		r := b.Res[n]
		want := r.Signature()
		v.Evals++
		fail := func(kind, f string, a ...any) *Verdict {
			v.Kind, v.Site = kind, n
			v.Fail = fmt.Sprintf(f, a...) + "\nexpected: " + want.String(b.Case) + "\n" + readBand(b, n)
			return v
		}
		fn := b.An.Funcs[n]
		if fn == nil {
			return fail("missing", "no function named %q was generated", n)
		}
		if fn.Sig == nil {
			v.Discard = "band-compile-error(C04)"
			return v
		}
		// parameters
		var got []spec.TypeID
		for i := 0; i < fn.Sig.Params().Len(); i++ {
			pt := fn.Sig.Params().At(i).Type()
			id, ok := b.typeID(pt)
			if !ok {
				if !isValidType(pt) {
					v.Discard = "band-compile-error(C04)"
					return v
				}
				return fail("param-type", "parameter %d has type %s which no needed provider requires", i, pt)
			}
			got = append(got, id)
		}
		wantSorted := append([]spec.TypeID{}, want.Params...)
		gotSorted := append([]spec.TypeID{}, got...)
		sort.Slice(wantSorted, func(i, j int) bool { return wantSorted[i] < wantSorted[j] })
		sort.Slice(gotSorted, func(i, j int) bool { return gotSorted[i] < gotSorted[j] })
		if fmt.Sprint(wantSorted) != fmt.Sprint(gotSorted) {
			var gs []string
			for _, g := range got {
				gs = append(gs, b.Case.Describe(g))
			}
			return fail("param-set", "parameters are (%s)", strings.Join(gs, ", "))
		}
		if want.CtxFirst && (len(got) == 0 || got[0] != spec.CtxType) {
			return fail("ctx-position", "context.Context is not the first parameter although an Async provider is needed")
		}
		// results
		rs := fn.Sig.Results()
		if rs.Len() < 1 {
			return fail("results", "function has no result")
		}
		rid, ok := b.typeID(rs.At(0).Type())
		if !ok || rid != want.Result {
			if !isValidType(rs.At(0).Type()) {
				v.Discard = "band-compile-error(C04)"
				return v
			}
			return fail("result-type", "first result is %s, requested type is %s", rs.At(0).Type(), b.Case.Describe(want.Result))
		}
		hasErr := rs.Len() == 2 && band.IsError(rs.At(1).Type())
		if rs.Len() > 2 || rs.Len() == 2 && !hasErr {
			return fail("results", "unexpected result list %s", rs)
		}
		if hasErr != want.Err {
			return fail("error-result", "error result present=%v, but a needed provider can fail=%v", hasErr, want.Err)
		}
		// non-trivial: >=1 argument and (context involved or an unneeded async/fallible provider present)
		if len(r.Args) >= 1 {
			ctxInvolved := want.HasCtx
			unneededSpecial := false
			for _, u := range r.Units {
				if !r.NeededSet[u] && (u.Async || u.Kind == "prov" && u.Prov.Err) {
					unneededSpecial = true
				}
			}
			if ctxInvolved || unneededSpecial {
				v.NonTrivial = true
			}
			v.Features["ctx-involved"] = v.Features["ctx-involved"] || ctxInvolved
			v.Features["unneeded-async-or-fallible"] = v.Features["unneeded-async-or-fallible"] || unneededSpecial
		}
	}
	if len(names) > 0 {
		v.Sample = map[string]any{"expected": b.Res[names[0]].Signature().String(b.Case), "decl": describeCase(b)}
	}
	return v
}

func isValidType(t interface{ String() string }) bool { return !strings.Contains(t.String(), "invalid type") }

func TestC10(t *testing.T)        { runProperty(t, "C10", genC10, checkC10) }
func TestReplayC10(t *testing.T)  { runReplay(t, "C10", checkC10) }
func TestWitnessC10(t *testing.T) { runWitnesses(t, "C10", checkC10, nil) }
