package props

import (
	"fmt"
	"os"
	"path/filepath"
	"sort"
	"strings"
	"testing"
	"time"

	"pgregory.net/rapid"

	"verifharness/band"
	"verifharness/mat"
	"verifharness/pipe"
	"verifharness/spec"
)

// WKCase is the replayable case of the migration properties.
type WKCase struct {
	W    *spec.WCase
	Salt uint32
}

func wireGated(c *Ctx, props ...string) map[string]bool {
	allow := spec.WAllowAll()
	for _, e := range c.KF.Entries {
		if e.Status != "open" {
			continue
		}
		for _, p := range props {
			if e.Property == p {
				for _, t := range e.Trigger {
					if strings.HasPrefix(t, "gate:") {
						delete(allow, strings.TrimPrefix(t, "gate:"))
					}
				}
			}
		}
	}
	return allow
}

func genC13(rt *rapid.T, c *Ctx) WKCase {
	o := spec.WOpts{MaxUnits: 9, MaxFiles: 2, Allow: wireGated(c, "C13"), OnExclude: func(f string) { c.Rep.Exclude(f) }, ExtNames: rapid.IntRange(0, 2).Draw(rt, "extnames") == 0}
	return WKCase{W: spec.GenWire(rt, o), Salt: uint32(rapid.IntRange(1, 1<<16).Draw(rt, "salt"))}
}

// wireBin returns the wire binary built by the driver (or builds it).
func (c *Ctx) wireBin() (string, error) {
	bin := filepath.Join(c.Snap.Root, "wire")
	if _, err := os.Stat(bin); err == nil {
		return bin, nil
	}
	dir := filepath.Join(c.Snap.Root, "wiretool")
	_ = os.MkdirAll(dir, 0o755)
	_ = os.WriteFile(filepath.Join(dir, "go.mod"), []byte("module wiretool\n\ngo 1.25\n\nrequire (\n\tgithub.com/google/wire v0.7.0\n\tgolang.org/x/tools v0.42.0\n)\n"), 0o644)
	sum := ""
	for _, f := range []string{filepath.Join(c.Snap.Src, "go.sum"), filepath.Join(c.Snap.Src, "tools", "go.sum")} {
		if b, err := os.ReadFile(f); err == nil {
			sum += string(b)
		}
	}
	_ = os.WriteFile(filepath.Join(dir, "go.sum"), []byte(sum), 0o644)
	_ = os.WriteFile(filepath.Join(dir, "tools.go"), []byte("//go:build tools\n\npackage tools\n\nimport _ \"github.com/google/wire/cmd/wire\"\n"), 0o644)
	tmp := bin + fmt.Sprintf(".%d", os.Getpid())
	r := pipe.Run(pipe.Cmd{Dir: dir, Env: c.goEnv(), Args: []string{"go", "build", "-o", tmp, "github.com/google/wire/cmd/wire"}, Timeout: 5 * time.Minute})
	if r.Exit != 0 {
		return "", fmt.Errorf("cannot build wire: %s", tail(r.Stderr, 800))
	}
	_ = os.Rename(tmp, bin)
	return bin, nil
}

// wirePair holds the two package copies of one case.
type wirePair struct {
	migrateDir string // working directory of migrate ("" = the package directory of copy B)
	c       *Ctx
	w       *spec.WCase
	root    string
	A, B    *mat.Layout
	WireOut pipe.Result
	Mig     pipe.Result
	Gen     pipe.Result
	AnB     *band.Analysis
}

func (p *wirePair) Close() { _ = os.RemoveAll(p.root) }

func (c *Ctx) caseDirs(cs *spec.Case, l *mat.Layout) map[string]string {
	dirs := map[string]string{}
	for i := range cs.Exts {
		e := &cs.Exts[i]
		dirs[mat.Module+"/"+e.Path] = l.ExtDirs[e.Key]
	}
	return dirs
}

// isWireFile reports whether a Go source imports google/wire.
func isWireFile(path string) bool {
	b, err := os.ReadFile(path)
	return err == nil && strings.Contains(string(b), "\"github.com/google/wire\"")
}

func newWirePair(c *Ctx, w *spec.WCase) (*wirePair, string, string) {
	root := c.Dir("wire-")
	p := &wirePair{c: c, w: w, root: root}
	env := mat.Env{KessokuSrc: c.Snap.Src, VRTDir: c.vrtDir()}
	var err error
	if p.A, err = mat.WriteWire(w, filepath.Join(root, "a", "m"), env); err != nil {
		return p, "materialize-error", err.Error()
	}
	if p.B, err = mat.WriteWire(w, filepath.Join(root, "b", "m"), env); err != nil {
		return p, "materialize-error", err.Error()
	}
	return p, "", ""
}

// runWire runs `wire gen` in copy A.
func (p *wirePair) runWire() error {
	bin, err := p.c.wireBin()
	if err != nil {
		return err
	}
	p.WireOut = pipe.Run(pipe.Cmd{Dir: p.A.AppDir, Env: p.c.goEnv(), Args: []string{bin, "gen", "."}, Timeout: 3 * time.Minute})
	return nil
}

// runMigrate runs `kessoku migrate` in copy B (default output kessoku.go).
func (p *wirePair) runMigrate(extra ...string) {
	args := append([]string{p.c.Snap.CLI, "migrate"}, extra...)
	dir := p.B.AppDir
	if p.migrateDir != "" {
		dir = p.migrateDir
	}
	p.Mig = pipe.Run(pipe.Cmd{Dir: dir, Env: p.c.goEnv(), Args: args, Timeout: 3 * time.Minute})
}

// setAsideWire removes the wire files from copy B.
func (p *wirePair) setAsideWire() {
	ents, _ := os.ReadDir(p.B.AppDir)
	for _, e := range ents {
		f := filepath.Join(p.B.AppDir, e.Name())
		if strings.HasSuffix(e.Name(), ".go") && isWireFile(f) {
			_ = os.Remove(f)
		}
	}
}

func (p *wirePair) runGenerate() {
	p.Gen = pipe.Run(pipe.Cmd{Dir: p.B.AppDir, Env: p.c.goEnv(), Args: []string{p.c.Snap.CLI, "kessoku.go"}, Timeout: 3 * time.Minute})
}

func wireFeatures(w *spec.WCase) map[string]bool {
	f := map[string]bool{}
	for _, x := range w.Features {
		f[x] = true
	}
	return f
}

func (p *wirePair) dump() string {
	var sb strings.Builder
	for _, f := range []string{"wire.go", "wire_sets.go"} {
		if b, err := os.ReadFile(filepath.Join(p.A.AppDir, f)); err == nil {
			sb.WriteString("--- " + f + "\n" + string(b) + "\n")
		}
	}
	if b, err := os.ReadFile(filepath.Join(p.B.AppDir, "kessoku.go")); err == nil {
		sb.WriteString("--- kessoku.go (migrated)\n" + string(b) + "\n")
	}
	if b, err := os.ReadFile(filepath.Join(p.B.AppDir, "kessoku_band.go")); err == nil {
		sb.WriteString("--- kessoku_band.go\n" + string(b) + "\n")
	}
	if b, err := os.ReadFile(filepath.Join(p.A.AppDir, "wire_gen.go")); err == nil {
		sb.WriteString("--- wire_gen.go\n" + string(b) + "\n")
	}
	var provs []string
	for i := range p.w.Spec.Provs {
		pr := &p.w.Spec.Provs[i]
		ps, rs := []string{}, []string{}
		for _, t := range pr.Params {
			ps = append(ps, p.w.Spec.Describe(t))
		}
		for _, t := range pr.Results {
			rs = append(rs, p.w.Spec.Describe(t))
		}
		e := ""
		if pr.Err {
			e = ", error"
		}
		provs = append(provs, fmt.Sprintf("P%d %s(%s) (%s%s)", pr.ID, pr.Name, strings.Join(ps, ", "), strings.Join(rs, ", "), e))
	}
	sb.WriteString("providers: " + strings.Join(provs, "; ") + "\n")
	return sb.String()
}

func checkC13(c *Ctx, k WKCase) *Verdict {
	v := &Verdict{Features: wireFeatures(k.W)}
	w := k.W
	if len(w.Files) == 0 || len(w.Files[0].Injectors) == 0 {
		v.Discard = "empty-case"
		return v
	}
	p, d, det := newWirePair(c, w)
	defer p.Close()
	if d != "" {
		v.Discard, v.Detail = d, det
		return v
	}
	if err := p.runWire(); err != nil {
		v.Discard, v.Detail = "wire-build-error", err.Error()
		return v
	}
	if p.WireOut.Exit != 0 {
		// the property quantifies over configurations wire itself accepts
		v.Discard, v.Detail = "wire-rejected", tail(p.WireOut.Stderr, 600)+"\n"+p.dump()
		return v
	}
	kinds := 0
	for _, f := range []string{"bind", "value", "ivalue", "struct", "fieldsof", "sets"} {
		if v.Features[f] {
			kinds++
		}
	}
	if v.Features["value"] && v.Features["ivalue"] {
		kinds--
	}
	v.NonTrivial = kinds >= 2 && len(w.Spec.Provs) >= 3
	fail := func(kind, site, f string, a ...any) *Verdict {
		v.Kind, v.Site = kind, site
		v.Fail = fmt.Sprintf(f, a...) + "\n" + p.dump()
		return v
	}
	p.runMigrate()
	v.Evals++
	if p.Mig.Exit != 0 {
		return fail("no-injector:migrate-failed", errLine(p.Mig.Stderr), "wire accepts the configuration but kessoku migrate exits %d: %s", p.Mig.Exit, tail(p.Mig.Stderr, 600))
	}
	if _, err := os.Stat(filepath.Join(p.B.AppDir, "kessoku.go")); err != nil {
		return fail("no-injector:no-output", "kessoku.go", "migrate exited 0 without writing kessoku.go: %s", tail(p.Mig.Stderr, 400))
	}
	p.setAsideWire()
	p.runGenerate()
	if p.Gen.Exit != 0 {
		return fail("no-injector:generator-refuses", errLine(p.Gen.Stderr), "the migrated declaration is refused by the generator: %s", tail(p.Gen.Stderr, 600))
	}
	an, err := band.Load(c.importer(), mat.Module+"/"+mat.UserPkg, p.B.AppDir, c.caseDirs(w.Spec, p.B))
	if err != nil {
		if strings.HasPrefix(err.Error(), "parse ") {
			// a migrated or emitted file that is not even syntactically valid
			return fail("no-injector:does-not-compile", "unparsable", "the migrated package does not parse: %v", err)
		}
		v.Discard, v.Detail = "analyze-error", err.Error()
		return v
	}
	p.AnB = an
	if len(an.Errors) > 0 {
		e := an.Errors[0]
		return fail("no-injector:does-not-compile", errClass(e.Msg), "the migrated package does not type-check: %v", an.Errors)
	}
	injs := w.Files[0].Injectors
	v.Features["second-injector"] = len(injs) >= 2
	var adsA, adsB []mat.AdapterSpec
	bb := &Built{ctx: c, Case: w.Spec, L: p.B, An: an}
	bb.helperT = helperTypes(w.Spec, an)
	for ii := range injs {
		inj := &injs[ii]
		fn := an.Funcs[inj.Name]
		if fn == nil || fn.Sig == nil {
			return fail("no-injector:missing", inj.Name, "no function %s was generated from the migrated file", inj.Name)
		}
		adB, err := bb.adapter(inj.Name)
		if err != nil {
			return fail("signature", "parameter type", "migrated injector %s has a parameter/result outside the original universe: %v", inj.Name, err)
		}
		// parameter rule: exactly the original argument types that some invoked provider uses
		unused := map[spec.TypeID]bool{}
		for _, u := range inj.Unused {
			unused[u] = true
		}
		var want []int
		for _, a := range inj.Args {
			if !unused[a] {
				want = append(want, int(a))
			}
		}
		var got []int
		for _, a := range adB.Params {
			got = append(got, int(a))
		}
		sort.Ints(want)
		sort.Ints(got)
		if fmt.Sprint(want) != fmt.Sprint(got) {
			var ws, gs []string
			for _, a := range want {
				ws = append(ws, w.Spec.Describe(spec.TypeID(a)))
			}
			for _, a := range got {
				gs = append(gs, w.Spec.Describe(spec.TypeID(a)))
			}
			return fail("signature:params", fmt.Sprintf("want(%s) got(%s)", strings.Join(ws, ","), strings.Join(gs, ",")), "migrated injector %s takes (%s); the wire injector's used argument types are (%s)", inj.Name, strings.Join(gs, ", "), strings.Join(ws, ", "))
		}
		if adB.Result != inj.Want {
			return fail("signature:result", "result", "migrated injector %s returns %s, wire injector returns %s", inj.Name, w.Spec.Describe(adB.Result), w.Spec.Describe(inj.Want))
		}
		adsB = append(adsB, *adB)
		adsA = append(adsA, mat.AdapterSpec{Name: inj.Name, Params: inj.Args, Result: inj.Want, HasErr: inj.Err})
	}
	// build both inner binaries
	binA, errA := buildInnerAt(c, w.Spec, p.A, adsA, "a")
	if errA != nil {
		v.Discard, v.Detail = "wire-side-build-error", errA.Error()
		return v
	}
	binB, errB := buildInnerAt(c, w.Spec, p.B, adsB, "b")
	if errB != nil {
		return fail("no-injector:does-not-compile", "go build", "the migrated package does not build: %v", errB)
	}
	// plans per injector: two argument vectors fault-free, every fallible provider failing alone
	var plans []*Plan
	for ii := range injs {
		inj := &injs[ii]
		args := func(salt uint32) map[string]uint32 {
			m := map[string]uint32{"ctx": 1}
			for _, a := range inj.Args {
				m[fmt.Sprint(int(a))] = spec.Mix(uint32(a)+91, salt)
			}
			return m
		}
		plans = append(plans, &Plan{Inj: inj.Name, Mode: "plain", CancelAt: -2, Args: args(k.Salt), Repeat: 1})
		plans = append(plans, &Plan{Inj: inj.Name, Mode: "plain", CancelAt: -2, Args: args(k.Salt + 1), Repeat: 1})
		for i := range w.Spec.Provs {
			if w.Spec.Provs[i].Err {
				plans = append(plans, &Plan{Inj: inj.Name, Mode: "plain", CancelAt: -2, Args: args(k.Salt), Repeat: 1, Fail: []int{w.Spec.Provs[i].ID}})
			}
		}
	}
	ba := &Built{ctx: c, Case: w.Spec, L: &mat.Layout{Root: filepath.Join(p.root, "a"), AppDir: p.A.AppDir}}
	bbx := &Built{ctx: c, Case: w.Spec, L: &mat.Layout{Root: filepath.Join(p.root, "b"), AppDir: p.B.AppDir}}
	exA, err := ba.execPlans(binA, clonePlans(plans), false)
	if err != nil {
		v.Discard, v.Detail = "wire-side-run-error", err.Error()
		return v
	}
	exB, err := bbx.execPlans(binB, clonePlans(plans), false)
	if err != nil {
		v.Discard, v.Detail = "kessoku-side-run-error", err.Error()
		return v
	}
	v.Evals += len(exA) + len(exB)
	c.Rep.Extra["programs"] = asF(c.Rep.Extra["programs"]) + 1
	c.Rep.Extra["disagreements_checked"] = asF(c.Rep.Extra["disagreements_checked"]) + float64(len(exA))
	for i := range exA {
		if i >= len(exB) {
			break
		}
		a, b := exA[i], exB[i]
		site := fmt.Sprintf("%s plan %d fail=%v", a.Inj, a.Plan, plans[a.Plan].Fail)
		if a.Panic != "" || a.Crashed {
			v.Discard, v.Detail = "wire-side-panic", a.Panic
			return v
		}
		if b.Panic != "" || b.Crashed {
			return fail("panic", site, "the migrated injector panics: %s %s", b.Panic, tail(b.CrashLog, 600))
		}
		if a.ErrKind == "provider" {
			if b.ErrKind != "provider" || b.ErrProv != a.ErrProv {
				return fail("error-divergence", site, "wire's injector reports the error of provider %d, the migrated injector reports %q (%s, provider %d)", a.ErrProv, b.ErrText, b.ErrKind, b.ErrProv)
			}
			continue
		}
		if !a.ErrNil {
			v.Discard, v.Detail = "wire-side-unexpected-error", a.ErrText
			return v
		}
		if !b.ErrNil {
			return fail("spurious-error", site, "wire's injector succeeds, the migrated injector returns %q", b.ErrText)
		}
		if a.Result != b.Result {
			return fail("value", site, "result hash %d (wire) vs %d (migrated); wire calls: %s; migrated calls: %s", a.Result, b.Result, evString(a.Events), evString(b.Events))
		}
		if d := diffMultiset(callMultiset(b.Events), callMultiset(a.Events)); d != "" {
			return fail("calls", site, "provider invocations differ (expected = wire): %s", d)
		}
	}
	v.Sample = map[string]any{"wire.go": readFile(filepath.Join(p.A.AppDir, "wire.go")), "kessoku.go": readFile(filepath.Join(p.B.AppDir, "kessoku.go"))}
	return v
}

func readFile(p string) string {
	b, _ := os.ReadFile(p)
	return string(b)
}

func clonePlans(ps []*Plan) []*Plan {
	out := make([]*Plan, len(ps))
	for i, p := range ps {
		q := *p
		out[i] = &q
	}
	return out
}

// buildInnerAt writes glue into the layout's package and builds its test binary.
func buildInnerAt(c *Ctx, cs *spec.Case, l *mat.Layout, ads []mat.AdapterSpec, tag string) (string, error) {
	if err := os.WriteFile(filepath.Join(l.AppDir, "inner_test.go"), []byte(mat.GlueSource(cs, ads)), 0o644); err != nil {
		return "", err
	}
	bin := filepath.Join(filepath.Dir(l.Root), "inner-"+tag+".test")
	r := pipe.Run(pipe.Cmd{Dir: l.Root, Env: c.goEnv(), Args: []string{"go", "test", "-c", "-vet=off", "-o", bin, "./" + mat.UserPkg}, Timeout: 5 * time.Minute})
	if r.Exit != 0 {
		return "", fmt.Errorf("%s", tail(r.Stderr+r.Stdout, 1500))
	}
	return bin, nil
}

func TestC13(t *testing.T)        { runProperty(t, "C13", genC13, checkC13) }
func TestReplayC13(t *testing.T)  { runReplay(t, "C13", checkC13) }
func TestWitnessC13(t *testing.T) { runWitnesses(t, "C13", checkC13, nil) }
