package props

import (
	"bufio"
	"encoding/json"
	"fmt"
	"go/types"
	"os"
	"path/filepath"
	"sort"
	"strings"
	"sync"
	"time"

	"verifharness/band"
	"verifharness/mat"
	"verifharness/pipe"
	"verifharness/spec"
)

// ---------------------------------------------------------------- plans (mirror of vrt)

type Plan struct {
	Inj      string            `json:"inj"`
	ID       int               `json:"id"`
	Mode     string            `json:"mode"`
	Policy   string            `json:"policy"`
	Starve   int               `json:"starve"`
	Choices  []int             `json:"choices"`
	Fail     []int             `json:"fail"`
	CancelAt int               `json:"cancelAt"`
	Args     map[string]uint32 `json:"args"`
	Repeat   int               `json:"repeat"`
	Async    []int             `json:"async"`
	Latency  []int             `json:"latency"`
	Yields   bool              `json:"yields"`
}

type Event struct {
	K    string   `json:"k"`
	P    int      `json:"p"`
	Args []uint32 `json:"a,omitempty"`
	Err  bool     `json:"e,omitempty"`
}

type Exec struct {
	Inj       string   `json:"inj"`
	Plan      int      `json:"plan"`
	Rep       int      `json:"rep"`
	Events    []Event  `json:"ev"`
	Returned  bool     `json:"returned"`
	Result    uint32   `json:"result"`
	HasErr    bool     `json:"hasErr"`
	ErrNil    bool     `json:"errNil"`
	ErrProv   int      `json:"errProv"`
	ErrKind   string   `json:"errKind"`
	ErrText   string   `json:"errText,omitempty"`
	Deadlock  bool     `json:"deadlock"`
	Panic     string   `json:"panic,omitempty"`
	Alive     []string `json:"alive,omitempty"`
	Gated     []int    `json:"gated,omitempty"`
	Blocked   []string `json:"blocked,omitempty"`
	Stacks    string   `json:"stacks,omitempty"`
	HoldSet   []int    `json:"hold,omitempty"`
	HoldSeen  bool     `json:"holdSeen,omitempty"`
	Cancelled bool     `json:"cancelled,omitempty"`
	CancelCtx string   `json:"cancelCtx,omitempty"`
	Leaked    bool     `json:"leaked,omitempty"`
	Crashed   bool     `json:"crashed,omitempty"` // process died during this execution
	CrashLog  string   `json:"crashLog,omitempty"`
	Races     []string `json:"races,omitempty"`
}

// ---------------------------------------------------------------- shared per-process state

var (
	impOnce sync.Once
	impBase *band.Importer
)

func (c *Ctx) importer() *band.Importer {
	impOnce.Do(func() {
		impBase = band.NewImporter(map[string]string{
			"github.com/mazrean/kessoku":     c.Snap.Src,
			"golang.org/x/sync/errgroup":     filepath.Join(pipe.ModCache(), "golang.org/x/sync@v0.19.0/errgroup"),
			"vrt":                            c.vrtDir(),
		})
	})
	return impBase
}

func (c *Ctx) vrtDir() string {
	d := filepath.Join(c.Snap.Root, "vrtmod")
	if _, err := os.Stat(filepath.Join(d, "vrt.go")); err != nil {
		_ = mat.WriteVRT(d)
	}
	return d
}

// goEnv is the environment for builds of scratch modules and for the CLI.
func (c *Ctx) goEnv(extra ...string) []string {
	return pipe.Env(extra...)
}

func dirExists(p string) bool {
	st, err := os.Stat(p)
	return err == nil && st.IsDir()
}

type bandAnalysis = band.Analysis

// ---------------------------------------------------------------- built case

type Built struct {
	ctx    *Ctx
	Case   *spec.Case
	L      *mat.Layout
	An     *band.Analysis
	Res    map[string]*spec.Resolved // by injector name
	Inj    map[string]*spec.Injector
	InjFile map[string]string
	TypeOf map[string]spec.TypeID // not used
	CLI    []pipe.Result
	helperT map[spec.TypeID]types.Type
	bandOrig map[string]string // emitted files before yield instrumentation
	Yields   map[int]string    // yield id -> description (when instrumented)
}

func (b *Built) Close() {
	if b != nil && b.L != nil && os.Getenv("VERIF_KEEP_SCRATCH") == "" {
		_ = os.RemoveAll(b.L.Root)
	}
}

// materialize writes the case into a fresh scratch module.
func (c *Ctx) materialize(cs *spec.Case) (*Built, error) {
	root := c.Dir("case-")
	l, err := mat.Write(cs, filepath.Join(root, "m"), mat.Env{KessokuSrc: c.Snap.Src, VRTDir: c.vrtDir()})
	if err != nil {
		return nil, err
	}
	l.Root = root // Close removes the parent
	b := &Built{ctx: c, Case: cs, L: l, Res: map[string]*spec.Resolved{}, Inj: map[string]*spec.Injector{}, InjFile: map[string]string{}}
	l.Root = root
	for fi := range cs.Files {
		f := &cs.Files[fi]
		for ii := range f.Injectors {
			in := &f.Injectors[ii]
			b.Inj[in.Name] = in
			b.InjFile[in.Name] = f.Name
			b.Res[in.Name] = cs.Resolve(in)
		}
	}
	return b, nil
}

// declFiles returns the declaration files that contain injectors (base names).
func (b *Built) declFiles() []string {
	var out []string
	for i := range b.Case.Files {
		if len(b.Case.Files[i].Injectors) > 0 {
			out = append(out, b.Case.Files[i].Name)
		}
	}
	return out
}

// runCLI runs the generator once with the given files (base names) in the user package dir.
func (b *Built) runCLI(files ...string) pipe.Result { return b.runCLIFor(time.Minute, files...) }

func (b *Built) runCLIFor(limit time.Duration, files ...string) pipe.Result {
	args := append([]string{b.ctx.Snap.CLI}, files...)
	r := pipe.Run(pipe.Cmd{Dir: b.L.AppDir, Env: b.ctx.goEnv(), Args: args, Timeout: limit})
	b.CLI = append(b.CLI, r)
	return r
}

// sources returns the declaration files of the case as text.
func (b *Built) sources() string {
	var sb strings.Builder
	for _, f := range b.declFiles() {
		src, _ := os.ReadFile(filepath.Join(b.L.AppDir, f))
		sb.WriteString("--- " + f + "\n" + string(src) + "\n")
	}
	return sb.String()
}

func bandName(f string) string { return strings.TrimSuffix(f, ".go") + "_band.go" }

func (b *Built) bandPath(f string) string { return filepath.Join(b.L.AppDir, bandName(f)) }

// analyze type-checks the user package with the emitted files.
func (b *Built) analyze() error {
	dirs := map[string]string{}
	for i := range b.Case.Exts {
		e := &b.Case.Exts[i]
		dirs[mat.Module+"/"+e.Path] = b.L.ExtDirs[e.Key]
	}
	an, err := band.Load(b.ctx.importer(), mat.Module+"/"+mat.UserPkg, b.L.AppDir, dirs)
	if err != nil {
		return err
	}
	b.An = an
	b.helperT = helperTypes(b.Case, an)
	return nil
}

func helperTypes(cs *spec.Case, an *band.Analysis) map[spec.TypeID]types.Type {
	out := map[spec.TypeID]types.Type{}
	for i := range cs.Types {
		t := &cs.Types[i]
		if t.Kind == "none" {
			continue
		}
		if ht := an.HelperResult(fmt.Sprintf("mk_%d", int(t.ID))); ht != nil {
			out[t.ID] = ht
		}
	}
	return out
}

// typeID maps a go/types type of the checked package back to the spec type.
func (b *Built) typeID(t types.Type) (spec.TypeID, bool) {
	if band.IsContext(t) {
		return spec.CtxType, true
	}
	ids := make([]int, 0, len(b.helperT))
	for id := range b.helperT {
		ids = append(ids, int(id))
	}
	sort.Ints(ids)
	for _, id := range ids {
		if types.Identical(b.helperT[spec.TypeID(id)], t) {
			return spec.TypeID(id), true
		}
	}
	return 0, false
}

// adapter derives how to call the emitted injector from its actual signature.
func (b *Built) adapter(name string) (*mat.AdapterSpec, error) {
	fn := b.An.Funcs[name]
	if fn == nil || fn.Sig == nil {
		return nil, fmt.Errorf("injector %s not emitted", name)
	}
	a := &mat.AdapterSpec{Name: name}
	for i := 0; i < fn.Sig.Params().Len(); i++ {
		id, ok := b.typeID(fn.Sig.Params().At(i).Type())
		if !ok {
			return nil, fmt.Errorf("parameter %d of %s has a type outside the case universe: %s", i, name, fn.Sig.Params().At(i).Type())
		}
		a.Params = append(a.Params, id)
	}
	rs := fn.Sig.Results()
	if rs.Len() < 1 || rs.Len() > 2 {
		return nil, fmt.Errorf("%s has %d results", name, rs.Len())
	}
	id, ok := b.typeID(rs.At(0).Type())
	if !ok {
		return nil, fmt.Errorf("result of %s has a type outside the case universe: %s", name, rs.At(0).Type())
	}
	a.Result = id
	if rs.Len() == 2 {
		if !band.IsError(rs.At(1).Type()) {
			return nil, fmt.Errorf("second result of %s is not error", name)
		}
		a.HasErr = true
	}
	return a, nil
}

// buildInner writes the glue and builds the inner test binary.
func (b *Built) buildInner(names []string, race bool) (string, *pipe.Result, error) {
	var ads []mat.AdapterSpec
	for _, n := range names {
		a, err := b.adapter(n)
		if err != nil {
			return "", nil, err
		}
		ads = append(ads, *a)
	}
	if err := os.WriteFile(filepath.Join(b.L.AppDir, "inner_test.go"), []byte(mat.GlueSource(b.Case, ads)), 0o644); err != nil {
		return "", nil, err
	}
	bin := filepath.Join(b.L.Root, "inner.test")
	args := []string{"go", "test", "-c", "-vet=off", "-tags", mat.HiddenTag, "-o", bin}
	if race {
		bin = filepath.Join(b.L.Root, "inner-race.test")
		args = []string{"go", "test", "-c", "-vet=off", "-tags", mat.HiddenTag, "-race", "-o", bin}
	}
	args = append(args, "./"+mat.UserPkg)
	r := pipe.Run(pipe.Cmd{Dir: filepath.Join(b.L.Root, "m"), Env: b.ctx.goEnv(), Args: args, Timeout: 5 * time.Minute})
	if r.Exit != 0 {
		return "", &r, fmt.Errorf("inner build failed: %s", r.Stderr+r.Stdout)
	}
	return bin, &r, nil
}

// execPlans runs the plans in the inner binary, restarting after crashes.
func (b *Built) execPlans(bin string, plans []*Plan, race bool) ([]*Exec, error) {
	for i, p := range plans {
		p.ID = i
	}
	pj, _ := json.Marshal(plans)
	pfile := filepath.Join(b.L.Root, "plans.json")
	ofile := filepath.Join(b.L.Root, "out.jsonl")
	_ = os.Remove(ofile)
	if err := os.WriteFile(pfile, pj, 0o644); err != nil {
		return nil, err
	}
	var all []*Exec
	start := 0
	for attempt := 0; attempt < len(plans)+2 && start < len(plans); attempt++ {
		_ = os.Remove(ofile)
		env := b.ctx.goEnv("VRT_PLANS="+pfile, "VRT_OUT="+ofile, fmt.Sprintf("VRT_START=%d", start), "GOMAXPROCS=4")
		racelog := filepath.Join(b.L.Root, "race")
		if race {
			env = append(env, "GORACE=halt_on_error=0 log_path="+racelog)
		}
		r := pipe.Run(pipe.Cmd{Dir: b.L.AppDir, Env: env, Args: []string{bin, "-test.run", "^TestInner$", "-test.timeout", "120s"}, Timeout: 150 * time.Second})
		execs, lastBegin, complete := readOut(ofile)
		all = append(all, execs...)
		if race {
			races := readRaces(racelog)
			if len(races) > 0 && len(all) > 0 {
				all[len(all)-1].Races = append(all[len(all)-1].Races, races...)
			}
		}
		if r.Exit == 0 && !r.TimedOut {
			return all, nil
		}
		if r.TimedOut {
			return all, fmt.Errorf("inner binary timed out (watchdog; inconclusive)")
		}
		// crashed: attribute to the last BEGIN without a record
		if lastBegin[0] < 0 {
			return all, fmt.Errorf("inner binary failed before the first execution: exit=%d %s", r.Exit, tail(r.Stdout+r.Stderr, 1500))
		}
		if !complete {
			p := plans[lastBegin[0]]
			all = append(all, &Exec{Inj: p.Inj, Plan: p.ID, Rep: lastBegin[1], Crashed: true, CrashLog: tail(r.Stdout+r.Stderr, 3000), ErrProv: -1})
		} else if r.Exit != 0 {
			// all executions recorded but the test binary still failed (e.g. test framework complaint)
			return all, fmt.Errorf("inner binary exit=%d after complete output: %s", r.Exit, tail(r.Stdout+r.Stderr, 1500))
		}
		start = lastBegin[0] + 1
	}
	return all, nil
}

func tail(s string, n int) string {
	if len(s) > n {
		return "…" + s[len(s)-n:]
	}
	return s
}

func readOut(path string) (execs []*Exec, lastBegin [2]int, complete bool) {
	lastBegin = [2]int{-1, -1}
	f, err := os.Open(path)
	if err != nil {
		return nil, lastBegin, false
	}
	defer f.Close()
	sc := bufio.NewScanner(f)
	sc.Buffer(make([]byte, 1<<20), 64<<20)
	complete = true
	for sc.Scan() {
		line := sc.Text()
		if strings.HasPrefix(line, "BEGIN ") {
			fmt.Sscanf(line, "BEGIN %d %d", &lastBegin[0], &lastBegin[1])
			complete = false
			continue
		}
		if strings.TrimSpace(line) == "" {
			continue
		}
		ex := &Exec{}
		if err := json.Unmarshal([]byte(line), ex); err == nil {
			execs = append(execs, ex)
			complete = true
		}
	}
	return execs, lastBegin, complete
}

func readRaces(prefix string) []string {
	files, _ := filepath.Glob(prefix + ".*")
	var out []string
	for _, f := range files {
		b, err := os.ReadFile(f)
		if err == nil {
			for _, blk := range strings.Split(string(b), "==================") {
				if strings.Contains(blk, "DATA RACE") {
					out = append(out, strings.TrimSpace(blk))
				}
			}
		}
		_ = os.Remove(f)
	}
	return out
}

// asyncPIDs lists the logged ids of Async units of the needed cone.
func asyncPIDs(r *spec.Resolved) []int {
	var out []int
	for _, u := range r.Needed {
		if u.Async && u.PID() >= 0 {
			out = append(out, u.PID())
		}
	}
	sort.Ints(out)
	return out
}

// argHashes draws nothing: deterministic argument hashes derived from type ids and a salt.
func argHashes(r *spec.Resolved, salt uint32) (map[string]uint32, map[spec.TypeID]uint32) {
	js := map[string]uint32{}
	m := map[spec.TypeID]uint32{}
	for _, a := range r.Args {
		h := spec.Mix(uint32(int32(a))+77, salt)
		m[a] = h
		if a == spec.CtxType {
			js["ctx"] = h
		} else {
			js[fmt.Sprint(int(a))] = h
		}
	}
	if _, ok := js["ctx"]; !ok {
		js["ctx"] = spec.Mix(4242, salt)
	}
	return js, m
}
