package props

import (
	"fmt"
	"go/ast"
	"go/token"
)

// structuralC03 checks invariants of the emitted function that the dynamic schedule
// cannot widen: eg.Wait() precedes the final return whenever goroutines exist, and every
// completion channel has exactly one close site and at least one wait site.
func structuralC03(b *Built, name string) string {
	fn := b.An.Funcs[name]
	if fn == nil || fn.Decl.Body == nil {
		return ""
	}
	body := fn.Decl.Body.List
	hasGo := false
	waitIdx, lastRet := -1, -1
	for i, st := range body {
		top := st
		ast.Inspect(top, func(n ast.Node) bool {
			if _, ok := n.(*ast.FuncLit); ok {
				// calls inside goroutine bodies do not count as main-thread eg.Wait
				if call, ok2 := parentCall(top, n); ok2 && isEg(call, "Go") {
					hasGo = true
				}
				return false
			}
			if call, ok := n.(*ast.CallExpr); ok {
				if isEg(call, "Wait") {
					waitIdx = i
				}
				if isEg(call, "Go") {
					hasGo = true
				}
			}
			return true
		})
		if _, ok := st.(*ast.ReturnStmt); ok {
			lastRet = i
		}
	}
	if hasGo {
		if lastRet != len(body)-1 {
			return "function with goroutines does not end in a return statement"
		}
		if waitIdx < 0 || waitIdx > lastRet {
			return "final return of a function with goroutines is not preceded by eg.Wait()"
		}
	}
	// channels
	chans := map[string]bool{}
	ast.Inspect(fn.Decl, func(n ast.Node) bool {
		vs, ok := n.(*ast.ValueSpec)
		if !ok || len(vs.Values) != 1 || len(vs.Names) != 1 {
			return true
		}
		if call, ok := vs.Values[0].(*ast.CallExpr); ok {
			if id, ok := call.Fun.(*ast.Ident); ok && id.Name == "make" && len(call.Args) == 1 {
				if _, ok := call.Args[0].(*ast.ChanType); ok {
					chans[vs.Names[0].Name] = true
				}
			}
		}
		return true
	})
	closes := map[string]int{}
	waits := map[string]int{}
	ast.Inspect(fn.Decl, func(n ast.Node) bool {
		switch x := n.(type) {
		case *ast.CallExpr:
			if id, ok := x.Fun.(*ast.Ident); ok && id.Name == "close" && len(x.Args) == 1 {
				if a, ok := x.Args[0].(*ast.Ident); ok && chans[a.Name] {
					closes[a.Name]++
				}
			}
		case *ast.UnaryExpr:
			if x.Op == token.ARROW {
				if a, ok := x.X.(*ast.Ident); ok && chans[a.Name] {
					waits[a.Name]++
				}
			}
		case *ast.CompositeLit:
			at, ok := x.Type.(*ast.ArrayType)
			if !ok {
				return true
			}
			ct, ok := at.Elt.(*ast.ChanType)
			if !ok {
				return true
			}
			seen := map[string]bool{}
			for _, e := range x.Elts {
				if a, ok := e.(*ast.Ident); ok && chans[a.Name] {
					switch ct.Dir {
					case ast.SEND:
						closes[a.Name]++ // a channel listed twice in one close loop is a double close
					case ast.RECV:
						if !seen[a.Name] {
							waits[a.Name]++
						}
					}
					seen[a.Name] = true
				}
			}
		}
		return true
	})
	for ch := range chans {
		if closes[ch] != 1 {
			return fmt.Sprintf("completion channel %s has %d close sites", ch, closes[ch])
		}
		if waits[ch] < 1 {
			return fmt.Sprintf("completion channel %s is never waited for", ch)
		}
	}
	return ""
}

func isEg(call *ast.CallExpr, method string) bool {
	sel, ok := call.Fun.(*ast.SelectorExpr)
	if !ok || sel.Sel.Name != method {
		return false
	}
	id, ok := sel.X.(*ast.Ident)
	return ok && id.Name == "eg"
}

// parentCall finds the call expression whose argument is lit inside stmt.
func parentCall(stmt ast.Node, lit ast.Node) (*ast.CallExpr, bool) {
	var found *ast.CallExpr
	ast.Inspect(stmt, func(n ast.Node) bool {
		if call, ok := n.(*ast.CallExpr); ok {
			for _, a := range call.Args {
				if a == lit {
					found = call
					return false
				}
			}
		}
		return found == nil
	})
	return found, found != nil
}

// inspectNoLit walks a statement without descending into function literals and reports
// "select" for every select statement found.
func inspectNoLit(st ast.Stmt, f func(any)) {
	ast.Inspect(st, func(n ast.Node) bool {
		switch n.(type) {
		case *ast.FuncLit:
			return false
		case *ast.SelectStmt:
			f("select")
		}
		return true
	})
}

// resultAssignedInGoroutine reports whether the variable returned by the function's final
// return statement is assigned inside a function literal (goroutine body).
func resultAssignedInGoroutine(fd *ast.FuncDecl) bool {
	if fd.Body == nil || len(fd.Body.List) == 0 {
		return false
	}
	ret, ok := fd.Body.List[len(fd.Body.List)-1].(*ast.ReturnStmt)
	if !ok || len(ret.Results) == 0 {
		return false
	}
	id, ok := ret.Results[0].(*ast.Ident)
	if !ok {
		return false
	}
	found := false
	ast.Inspect(fd.Body, func(n ast.Node) bool {
		lit, ok := n.(*ast.FuncLit)
		if !ok {
			return true
		}
		ast.Inspect(lit.Body, func(m ast.Node) bool {
			if as, ok := m.(*ast.AssignStmt); ok {
				for _, l := range as.Lhs {
					if li, ok := l.(*ast.Ident); ok && li.Name == id.Name {
						found = true
					}
				}
			}
			return true
		})
		return false
	})
	return found
}
