package props

import (
	"fmt"
	"os"
	"regexp"
	"sort"
	"strings"
	"testing"

	"pgregory.net/rapid"

	"verifharness/band"
	"verifharness/mat"
	"verifharness/spec"
)

// staticResult is the outcome of materialise + CLI + type-check (no execution).
type staticResult struct {
	B       *Built
	Exit    int
	Stderr  string
	Discard string
	Detail  string
	Unparsable string // an emitted file does not even parse
}

func runStatic(c *Ctx, cs *spec.Case, perFile bool) *staticResult {
	b, err := c.materialize(cs)
	if err != nil {
		return &staticResult{Discard: "materialize-error", Detail: err.Error()}
	}
	sr := &staticResult{B: b}
	files := b.declFiles()
	if perFile {
		for _, f := range files {
			r := b.runCLI(f)
			if r.Err != nil {
				sr.Discard, sr.Detail = "cli-run-error", fmt.Sprint(r.Err)
				return sr
			}
			if r.Exit != 0 {
				sr.Exit, sr.Stderr = r.Exit, r.Stderr
				return sr
			}
		}
	} else {
		r := b.runCLI(files...)
		if r.Err != nil {
			sr.Discard, sr.Detail = "cli-run-error", fmt.Sprint(r.Err)
			return sr
		}
		sr.Exit, sr.Stderr = r.Exit, r.Stderr
		if r.Exit != 0 {
			return sr
		}
	}
	if err := b.analyze(); err != nil {
		if strings.Contains(err.Error(), "_band.go") {
			sr.Unparsable = err.Error()
			return sr
		}
		sr.Discard, sr.Detail = "analyze-error", err.Error()
		return sr
	}
	if ue := b.An.UserErrors(); len(ue) > 0 {
		// an error reported in a user file can still be caused by an emitted file (e.g. a
		// generated import that clashes with a package-level identifier): decide by checking
		// the user package on its own
		dirs := map[string]string{}
		for i := range cs.Exts {
			e := &cs.Exts[i]
			dirs[mat.Module+"/"+e.Path] = b.L.ExtDirs[e.Key]
		}
		if band.UserPackageAloneOK(c.importer(), mat.Module+"/"+mat.UserPkg, b.L.AppDir, dirs) {
			b.An.PromoteUserErrors()
		} else {
			sr.Discard, sr.Detail = "harness-user-package-error", fmt.Sprint(ue)
		}
	}
	return sr
}

var reIdentInMsg = regexp.MustCompile(`[A-Za-z_][A-Za-z0-9_]*`)

// errClass normalises a type-checker message to a class (identifiers removed).
func errClass(msg string) string {
	switch {
	case strings.HasPrefix(msg, "declared and not used"):
		return "declared and not used"
	case strings.Contains(msg, "redeclared in this block"):
		return "redeclared"
	case strings.HasPrefix(msg, "undefined:"):
		return "undefined"
	case strings.HasPrefix(msg, "cannot use nil as"):
		return "cannot use nil as value in return"
	case strings.Contains(msg, "no new variables on left side"):
		return "no new variables"
	case strings.Contains(msg, "imported and not used"):
		return "imported and not used"
	case strings.Contains(msg, "without instantiation"):
		return "generic type without instantiation"
	case strings.HasPrefix(msg, "cannot use"):
		return "cannot use (type mismatch)"
	case strings.Contains(msg, "not enough arguments") || strings.Contains(msg, "too many arguments"):
		return "argument count"
	case strings.Contains(msg, "other declaration of"):
		return "redeclared"
	case strings.Contains(msg, "assignment mismatch"):
		return "assignment mismatch"
	case strings.Contains(msg, "is not a type"):
		return "not a type"
	case strings.Contains(msg, "is not used"):
		return "unused value"
	}
	return "other: " + reIdentInMsg.ReplaceAllString(msg, "X")
}

func bandLine(b *Built, e band.TypeErr) string {
	src, err := os.ReadFile(b.L.AppDir + "/" + e.File)
	if err != nil {
		return ""
	}
	lines := strings.Split(string(src), "\n")
	if e.Line-1 < len(lines) && e.Line > 0 {
		return strings.TrimSpace(lines[e.Line-1])
	}
	return ""
}

// ---------------------------------------------------------------- C04

func genC04(rt *rapid.T, c *Ctx) KCase {
	o := spec.Opts{MinProv: 1, MaxProv: 8, MaxInjectors: 4, MaxFiles: 3, Adversarial: true}
	o.Allow = spec.AllowAll()
	for _, f := range c04Gated(c) {
		delete(o.Allow, f)
	}
	o.OnExclude = func(f string) { c.Rep.Exclude(f) }
	cs := spec.Gen(rt, o)
	return KCase{Spec: cs, Salt: uint32(rapid.IntRange(0, 1).Draw(rt, "perfile"))}
}

// c04Gated lists features switched off because an OPEN known finding of C04 makes every
// case that uses them fail (see known_findings.json); fixed findings gate nothing.
func c04Gated(c *Ctx) []string {
	var out []string
	for _, e := range c.KF.Entries {
		if e.Property == "C04" && e.Status == "open" {
			for _, t := range e.Trigger {
				if strings.HasPrefix(t, "gate:") {
					out = append(out, strings.TrimPrefix(t, "gate:"))
				}
			}
		}
	}
	return out
}

func checkC04(c *Ctx, k KCase) *Verdict {
	v := &Verdict{Features: caseFeatures(k.Spec)}
	sr := runStatic(c, k.Spec, k.Salt == 1)
	if sr.B != nil {
		defer sr.B.Close()
	}
	if sr.Discard != "" {
		v.Discard, v.Detail = sr.Discard, sr.Detail
		return v
	}
	v.Evals = 1
	if sr.Exit != 0 {
		v.Discard, v.Detail = "cli-rejected(C09)", tail(sr.Stderr, 600)
		return v
	}
	b := sr.B
	if sr.Unparsable != "" {
		v.Kind, v.Site = "syntax error in emitted file", firstLine(sr.Unparsable)
		v.Fail = "generator exited 0 but an emitted file does not parse: " + sr.Unparsable
		for n := range b.Inj {
			v.Fail += "\n" + readBand(b, n)
			break
		}
		return v
	}
	ninj := len(b.Inj)
	v.Features["perfile-invocation"] = k.Salt == 1
	v.Features["injectors>=2"] = ninj >= 2
	v.Features["files>=2"] = len(b.declFiles()) >= 2
	hasAsyncInj := 0
	for _, r := range b.Res {
		if r.HasAsync {
			hasAsyncInj++
		}
	}
	v.Features["async-injectors>=2"] = hasAsyncInj >= 2
	v.NonTrivial = ninj >= 2 || k.Spec.HasFeature("composite") || k.Spec.HasFeature("ext") || k.Spec.HasFeature("adv-names") || k.Spec.HasFeature("generic")
	errs := b.An.BandErrors()
	if len(errs) > 0 {
		sort.Slice(errs, func(i, j int) bool { return errs[i].String() < errs[j].String() })
		e := errs[0]
		v.Kind = errClass(e.Msg)
		v.Site = bandLine(b, e)
		var all []string
		for _, x := range errs {
			all = append(all, x.String()+"   // "+bandLine(b, x))
		}
		inj := ""
		for n, f := range b.An.Funcs {
			if f.File == e.File {
				st, en := b.An.Fset.Position(f.Decl.Pos()).Line, b.An.Fset.Position(f.Decl.End()).Line
				if e.Line >= st && e.Line <= en {
					inj = n
				}
			}
		}
		v.Fail = fmt.Sprintf("generator exited 0 but its output does not type-check:\n%s\n%s", strings.Join(all, "\n"), readBand(b, inj))
		if inj == "" {
			for n := range b.Inj {
				inj = n
				break
			}
			v.Fail += readBand(b, inj)
		}
		return v
	}
	v.Sample = describeCase(b)
	return v
}

func TestC04(t *testing.T)        { runProperty(t, "C04", genC04, checkC04) }
func TestReplayC04(t *testing.T)  { runReplay(t, "C04", checkC04) }
func TestWitnessC04(t *testing.T) { runWitnesses(t, "C04", checkC04, nil) }

func firstLine(s string) string {
	if i := strings.IndexByte(s, '\n'); i >= 0 {
		s = s[:i]
	}
	// drop the scratch path prefix
	if i := strings.LastIndex(s, "/"); i >= 0 {
		s = s[i+1:]
	}
	return s
}
