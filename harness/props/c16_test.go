package props

import (
	"fmt"
	"os"
	"path/filepath"
	"regexp"
	"sort"
	"strings"
	"testing"

	"pgregory.net/rapid"

	"verifharness/fsx"
	"verifharness/pipe"
)

// ---------------------------------------------------------------- documentation oracle

type agentDoc struct {
	Display, Cmd, Project, User string
}

var (
	reAgents = regexp.MustCompile("([A-Za-z][A-Za-z ]*?)\\(`([a-z0-9-]+)`\\)")
	rePaths  = regexp.MustCompile("(?m)^- \\*\\*(.+?):\\*\\* `(.+?)` \\(project\\) or `~/(.+?)` \\(user\\)")
)

func readAgentDocs(snapSrc string) ([]agentDoc, error) {
	b, err := os.ReadFile(filepath.Join(snapSrc, "README.md"))
	if err != nil {
		return nil, err
	}
	s := string(b)
	i := strings.Index(s, "**Supported agents:**")
	if i < 0 {
		return nil, fmt.Errorf("README: no 'Supported agents' line")
	}
	line := s[i:]
	if j := strings.IndexByte(line, '\n'); j >= 0 {
		line = line[:j]
	}
	var docs []agentDoc
	for _, m := range reAgents.FindAllStringSubmatch(line, -1) {
		docs = append(docs, agentDoc{Display: strings.TrimSpace(strings.TrimLeft(m[1], ", ")), Cmd: m[2]})
	}
	paths := map[string][2]string{}
	for _, m := range rePaths.FindAllStringSubmatch(s, -1) {
		paths[m[1]] = [2]string{m[2], m[3]}
	}
	for i := range docs {
		p, ok := paths[docs[i].Display]
		if !ok {
			return nil, fmt.Errorf("README: no default path line for agent %q", docs[i].Display)
		}
		docs[i].Project, docs[i].User = strings.TrimSuffix(p[0], "/"), strings.TrimSuffix(p[1], "/")
	}
	if len(docs) == 0 {
		return nil, fmt.Errorf("README: no agents parsed")
	}
	return docs, nil
}

// expectedTree reads the skill tree from the snapshot's source directory.
func expectedTree(snapSrc string) (map[string]string, []string, error) {
	root := filepath.Join(snapSrc, "internal", "llmsetup", "skills", "kessoku-di")
	files := map[string]string{}
	dirs := []string{}
	err := filepath.Walk(root, func(p string, info os.FileInfo, err error) error {
		if err != nil {
			return err
		}
		rel, _ := filepath.Rel(root, p)
		if rel == "." {
			return nil
		}
		if info.IsDir() {
			dirs = append(dirs, rel)
			return nil
		}
		b, err := os.ReadFile(p)
		if err != nil {
			return err
		}
		files[rel] = fsx.SumBytes(b)
		return nil
	})
	if len(files) == 0 && err == nil {
		err = fmt.Errorf("empty skill tree at %s", root)
	}
	return files, dirs, err
}

// ---------------------------------------------------------------- case model

type C16Step struct {
	Agent string // subcommand
	Form  string // default | user | path-rel | path-abs | path-slash | path-nested | path-user | path-short
	Prior string // absent | older | unrelated | base-file | parent-file
	Umask int
	Cwd   string // "" (the project root) | nested (a sub-directory of the project) | under-home (a directory below $HOME)
	Ancestor bool // an ancestor of the working directory already has the agent's project directory
}

type C16Case struct {
	Steps []C16Step
}

var c16Forms = []string{"default", "user", "path-rel", "path-abs", "path-slash", "path-nested", "path-user", "path-short", "path-rel-user", "path-dot", "path-dotdot-user"}
var c16Priors = []string{"absent", "older", "unrelated", "base-file", "parent-file", "current-wrong-mode", "base-private", "base-group-writable"}
var c16Cwds = []string{"", "", "nested", "under-home"}
var c16Umasks = []int{0o022, 0o077, 0o000}

func genC16(rt *rapid.T, c *Ctx) C16Case {
	docs, err := readAgentDocs(c.Snap.Src)
	if err != nil {
		rt.Fatalf("%v", err)
	}
	n := rapid.IntRange(1, 5).Draw(rt, "steps")
	cs := C16Case{}
	for i := 0; i < n; i++ {
		cs.Steps = append(cs.Steps, C16Step{
			Agent: docs[rapid.IntRange(0, len(docs)-1).Draw(rt, "agent")].Cmd,
			Form:  rapid.SampledFrom(c16Forms).Draw(rt, "form"),
			Prior: rapid.SampledFrom(c16Priors).Draw(rt, "prior"),
			Umask: rapid.SampledFrom(c16Umasks).Draw(rt, "umask"),
			Cwd:   rapid.SampledFrom(c16Cwds).Draw(rt, "cwd"),
			Ancestor: rapid.Bool().Draw(rt, "ancestor-agent-dir"),
		})
	}
	return cs
}

func checkC16(c *Ctx, cs C16Case) *Verdict {
	v := &Verdict{Features: map[string]bool{}}
	docs, err := readAgentDocs(c.Snap.Src)
	if err != nil {
		v.Fail, v.Kind, v.Site = err.Error(), "doc", "README"
		return v
	}
	exp, expDirs, err := expectedTree(c.Snap.Src)
	if err != nil {
		v.Fail, v.Kind, v.Site = err.Error(), "doc", "skills"
		return v
	}
	byCmd := map[string]agentDoc{}
	for _, d := range docs {
		byCmd[d.Cmd] = d
	}
	root := c.Dir("c16-")
	defer os.RemoveAll(root)
	root, _ = filepath.EvalSymlinks(root)
	home, proj, canary := filepath.Join(root, "home"), filepath.Join(root, "proj"), filepath.Join(root, "canary")
	for _, d := range []string{home, proj, canary} {
		_ = os.MkdirAll(d, 0o755)
	}
	_ = os.WriteFile(filepath.Join(canary, "keep.txt"), []byte("canary"), 0o600)
	_ = os.WriteFile(filepath.Join(home, ".profile"), []byte("x"), 0o644)
	_ = os.WriteFile(filepath.Join(proj, "main.go"), []byte("package main"), 0o644)
	if len(cs.Steps) >= 2 {
		v.NonTrivial = true
		v.Features["history>=2"] = true
	}
	var trace []string
	for si, st := range cs.Steps {
		d, ok := byCmd[st.Agent]
		if !ok {
			v.Discard = "unknown agent in replay"
			return v
		}
		var args []string
		var base string
		cwd := proj
		switch st.Cwd {
		case "nested":
			cwd = filepath.Join(proj, "services", "api")
		case "under-home":
			cwd = filepath.Join(home, "work", "app")
		}
		if cwd != proj {
			_ = os.MkdirAll(cwd, 0o755)
			v.Features["cwd:"+st.Cwd] = true
			v.NonTrivial = true
		}
		if st.Ancestor && cwd != proj {
			// the parent project (or $HOME) was set up for the same agent earlier
			anc := filepath.Join(filepath.Dir(filepath.Dir(cwd)), d.Project)
			if _, err := os.Lstat(anc); err != nil && os.MkdirAll(anc, 0o755) == nil {
				v.Features["ancestor-agent-dir"] = true
			}
		}
		switch st.Form {
		case "default":
			base = filepath.Join(cwd, d.Project)
		case "user":
			base = filepath.Join(home, d.User)
			args = []string{"--user"}
		case "path-rel":
			base = filepath.Join(cwd, "custom", "rel")
			args = []string{"--path", "custom/rel"}
		case "path-abs":
			base = filepath.Join(root, "cust-abs")
			args = []string{"--path", base}
		case "path-slash":
			base = filepath.Join(root, "cust-slash")
			args = []string{"--path=" + base + "/"}
		case "path-nested":
			base = filepath.Join(root, "cust-nest", "a", "b", "c")
			args = []string{"--path", base}
		case "path-user":
			base = filepath.Join(root, "cust-user")
			args = []string{"--user", "--path", base}
		case "path-rel-user":
			base = filepath.Join(cwd, "custom", "reluser")
			args = []string{"--user", "--path", "custom/reluser"}
		case "path-dot":
			base = cwd
			args = []string{"--path", "."}
		case "path-dotdot-user":
			base = filepath.Join(filepath.Dir(cwd), "cust-dd")
			args = []string{"--path=../cust-dd", "--user"}
		case "path-short":
			base = filepath.Join(cwd, "..", "cust-short")
			args = []string{"-p", "../cust-short"}
			base = filepath.Clean(base)
		default:
			v.Discard = "unknown form"
			return v
		}
		v.Features["form:"+st.Form] = true
		if st.Form != "default" && st.Form != "user" {
			v.NonTrivial = true
		}
		skill := filepath.Join(base, "kessoku-di")
		// prior state
		prior := st.Prior
		_, baseErr := os.Lstat(base)
		baseExists := baseErr == nil
		switch prior {
		case "older":
			if fi, err := os.Stat(base); err == nil && !fi.IsDir() {
				prior = "as-is"
				break
			}
			if os.MkdirAll(filepath.Join(skill, "references"), 0o755) != nil {
				prior = "as-is"
				break
			}
			_ = os.WriteFile(filepath.Join(skill, "SKILL.md"), []byte("old skill content\n"), 0o600)
			_ = os.Chmod(filepath.Join(skill, "SKILL.md"), 0o600)
			_ = os.WriteFile(filepath.Join(skill, "references", "PATTERNS.md"), []byte("old patterns, longer than nothing\n"), 0o666)
			_ = os.WriteFile(filepath.Join(skill, "extra.txt"), []byte("user file"), 0o644)
		case "base-private", "base-group-writable":
			// the base directory exists already with permissions of the user's choosing
			if baseExists {
				prior = "as-is"
				break
			}
			mode := os.FileMode(0o700)
			if prior == "base-group-writable" {
				mode = 0o775
			}
			if os.MkdirAll(base, 0o755) != nil || os.Chmod(base, mode) != nil {
				prior = "as-is"
			}
		case "current-wrong-mode":
			// an earlier installation with the CURRENT content but other permissions
			if fi, err := os.Stat(base); err == nil && !fi.IsDir() {
				prior = "as-is"
				break
			}
			okw := true
			i := 0
			for rel := range exp {
				p := filepath.Join(skill, rel)
				src, err := os.ReadFile(filepath.Join(c.Snap.Src, "internal", "llmsetup", "skills", "kessoku-di", rel))
				if err != nil || os.MkdirAll(filepath.Dir(p), 0o755) != nil || os.WriteFile(p, src, 0o600) != nil {
					okw = false
					break
				}
				mode := os.FileMode(0o600)
				if i%2 == 1 {
					mode = 0o755
				}
				_ = os.Chmod(p, mode)
				i++
			}
			if !okw {
				prior = "as-is"
			}
		case "unrelated":
			if fi, err := os.Stat(base); err == nil && !fi.IsDir() {
				prior = "as-is"
				break
			}
			if os.MkdirAll(filepath.Join(base, "other-skill"), 0o755) != nil {
				prior = "as-is"
				break
			}
			_ = os.WriteFile(filepath.Join(base, "other-skill", "SKILL.md"), []byte("other"), 0o640)
			_ = os.WriteFile(filepath.Join(base, "note.txt"), []byte("note"), 0o600)
			_ = os.WriteFile(filepath.Join(filepath.Dir(base), "sibling.txt"), []byte("sib"), 0o644)
		case "base-file":
			if baseExists {
				prior = "as-is"
				break
			}
			if os.MkdirAll(filepath.Dir(base), 0o755) != nil || os.WriteFile(base, []byte("i am a file"), 0o644) != nil {
				prior = "as-is"
			}
		case "parent-file":
			par := filepath.Dir(base)
			if _, err := os.Lstat(par); err == nil {
				prior = "as-is"
				break
			}
			if os.MkdirAll(filepath.Dir(par), 0o755) != nil || os.WriteFile(par, []byte("parent is a file"), 0o644) != nil {
				prior = "as-is"
			}
		}
		// what do we expect given the actual state?
		expectFail := false
		if fi, err := os.Stat(base); err == nil && !fi.IsDir() {
			expectFail = true
		} else if err != nil && !os.IsNotExist(err) {
			expectFail = true // ENOTDIR: an ancestor is a file
		} else if err != nil {
			// does an ancestor exist as a file?
			for p := filepath.Dir(base); p != "/" && p != "."; p = filepath.Dir(p) {
				if fi, err := os.Lstat(p); err == nil {
					if !fi.IsDir() {
						expectFail = true
					}
					break
				}
			}
		}
		if fi, err := os.Lstat(skill); err == nil && !fi.IsDir() {
			v.Discard = "skill-dir-is-file"
			return v
		}
		v.Features["prior:"+prior] = true
		if prior != "absent" && prior != "as-is" {
			v.NonTrivial = true
		}
		_, skillErr := os.Lstat(skill)
		skillFresh := skillErr != nil
		before := fsx.Snap(root)
		cmdline := fmt.Sprintf("umask %04o; exec %s llm-setup %s %s", st.Umask, c.Snap.CLI, st.Agent, shellJoin(args))
		r := pipe.Run(pipe.Cmd{Dir: cwd, Env: append(pipe.Env(), "HOME="+home), Args: []string{"/bin/sh", "-c", cmdline}})
		v.Evals++
		after := fsx.Snap(root)
		diff := fsx.Diff(before, after)
		trace = append(trace, fmt.Sprintf("%s %s prior=%s umask=%04o cwd=%q ancestor=%v -> exit %d", st.Agent, strings.Join(args, " "), prior, st.Umask, st.Cwd, st.Ancestor, r.Exit))
		site := fmt.Sprintf("step %d agent=%s form=%s prior=%s", si, st.Agent, st.Form, prior)
		fail := func(kind, f string, a ...any) *Verdict {
			v.Kind, v.Site = kind, site
			v.Fail = fmt.Sprintf(f, a...) + fmt.Sprintf("\ncmd: %s\nexit=%d stdout=%q stderr=%q\nhistory: %v", cmdline, r.Exit, r.Stdout, r.Stderr, trace)
			return v
		}
		if r.Err != nil {
			v.Discard = "cli-run-error"
			return v
		}
		if expectFail {
			if r.Exit == 0 {
				return fail("accepted-bad-base", "base (or an ancestor) is a file but the installer exited 0")
			}
			if len(diff) != 0 {
				return fail("modified-on-error", "installer failed but changed the filesystem: %v", summarize(diff))
			}
			if strings.TrimSpace(r.Stderr) == "" {
				return fail("silent-error", "installer failed without a message on stderr")
			}
			continue
		}
		if r.Exit != 0 {
			return fail("install-failed", "installer exited %d on an installable destination", r.Exit)
		}
		want := "Skills installed to: " + skill
		if !strings.Contains(r.Stdout, want+"\n") {
			return fail("stdout", "stdout does not name the documented directory %q", skill)
		}
		relSkill, _ := filepath.Rel(root, skill)
		for rel, sum := range exp {
			e, ok := after[filepath.Join(relSkill, rel)]
			if !ok || e.Kind != "f" {
				return fail("missing-file", "embedded file %s not installed under %s", rel, skill)
			}
			if e.Sum != sum {
				return fail("content", "installed %s differs from the embedded file", rel)
			}
			if e.Mode != 0o644 {
				return fail("mode", "installed %s has mode %04o, want 0644", rel, e.Mode)
			}
		}
		if skillFresh {
			// a fresh destination must be an exact copy of the tree
			wantSet := map[string]bool{}
			for rel := range exp {
				wantSet[filepath.Join(relSkill, rel)] = true
			}
			for _, d := range expDirs {
				wantSet[filepath.Join(relSkill, d)] = true
			}
			for p := range after {
				if strings.HasPrefix(p, relSkill+string(filepath.Separator)) && !wantSet[p] {
					return fail("extra-in-fresh-copy", "fresh installation contains %s which is not in the embedded tree", p)
				}
			}
		}
		for _, ch := range diff {
			abs := filepath.Join(root, ch.Path)
			if abs == skill || strings.HasPrefix(abs, skill+string(filepath.Separator)) {
				continue
			}
			if ch.Op == "created" && ch.B.Kind == "d" && strings.HasPrefix(skill, abs+string(filepath.Separator)) {
				continue // missing parent directory created
			}
			return fail("outside-change", "path outside %s was %s: %s", skill, ch.Op, ch.Path)
		}
	}
	v.Sample = map[string]any{"history": trace}
	return v
}

func summarize(d []fsx.Change) []string {
	var out []string
	for _, c := range d {
		out = append(out, c.Op+" "+c.Path)
	}
	return out
}

func shellJoin(args []string) string {
	var q []string
	for _, a := range args {
		q = append(q, "'"+strings.ReplaceAll(a, "'", "'\\''")+"'")
	}
	return strings.Join(q, " ")
}

// ---------------------------------------------------------------- tests

func TestC16(t *testing.T) { runProperty(t, "C16", genC16, checkC16) }

func TestReplayC16(t *testing.T) { runReplay(t, "C16", checkC16) }

// TestWitnessC16 enumerates the whole agent x form x prior x umask matrix and the help census.
func TestWitnessC16(t *testing.T) {
	runWitnesses(t, "C16", checkC16, func(c *Ctx) {
		docs, err := readAgentDocs(c.Snap.Src)
		if err != nil {
			c.lastFail = nil
			c.Rep.Fail(err.Error(), "")
			return
		}
		// help census
		r := pipe.Run(pipe.Cmd{Dir: c.Scratch, Args: []string{c.Snap.CLI, "llm-setup", "--help"}})
		c.Rep.Eval(1)
		re := regexp.MustCompile(`(?m)^\s+llm-setup ([a-z0-9-]+)\s`)
		got := map[string]int{}
		for _, m := range re.FindAllStringSubmatch(r.Stdout, -1) {
			got[m[1]]++
		}
		var problems []string
		for _, d := range docs {
			if got[d.Cmd] != 1 {
				problems = append(problems, fmt.Sprintf("documented agent %q listed %d times in --help", d.Cmd, got[d.Cmd]))
			}
			delete(got, d.Cmd)
		}
		for k := range got {
			problems = append(problems, fmt.Sprintf("--help offers undocumented subcommand %q", k))
		}
		sort.Strings(problems)
		if len(problems) > 0 || r.Exit != 0 {
			path := filepath.Join(c.Out, "fail-help.json")
			_ = os.WriteFile(path, []byte(fmt.Sprintf(`{"property":"C16","case":{"Steps":[]},"kind":"help-census","msg":%q}`, strings.Join(problems, "; "))), 0o644)
			c.Rep.Fail("help census: "+strings.Join(problems, "; ")+fmt.Sprintf(" (exit %d)", r.Exit), path)
			return
		}
		n := 0
		for _, d := range docs {
			for _, f := range c16Forms {
				for _, p := range c16Priors {
					for _, u := range c16Umasks {
						cs := C16Case{Steps: []C16Step{{Agent: d.Cmd, Form: f, Prior: p, Umask: u}}}
						v := checkC16(c, cs)
						n++
						if msg := c.record(cs, v); msg != "" {
							return
						}
					}
				}
			}
		}
		c.Rep.Extra["matrix_runs"] = float64(n)
		c.Rep.Extra["matrix_exhaustive"] = true
	})
}
