package props

import (
	"fmt"
	"os"
	"path/filepath"
	"sort"
	"strings"
	"testing"

	"pgregory.net/rapid"

	"verifharness/fsx"
	"verifharness/pipe"
)

// C15Op is one step of an installation history.
type C15Op struct {
	Op    string // seed-old | crash | fail | ok
	Point int    // index into the destination syscalls of a dry run (crash / fail)
	Errno int    // index into the errno list of the syscall
	Name  string `json:",omitempty"` // when set: inject at the When-th invocation of this syscall (sweep)
	When  int    `json:",omitempty"`
}

type C15Case struct {
	Agent string
	Form  string // default | user | path
	Ops   []C15Op
}

var c15Errnos = map[string][]string{
	"mkdirat":  {"EACCES", "ENOSPC", "EROFS"},
	"openat":   {"EACCES", "ENOSPC", "EMFILE"},
	"write":    {"ENOSPC", "EIO", "EDQUOT"},
	"fsync":    {"EIO", "ENOSPC"},
	"close":    {"EIO", "ENOSPC"},
	"fchmodat": {"EPERM", "EROFS"},
	"renameat": {"EXDEV", "EIO", "EACCES", "ENOSPC"},
	"unlinkat": {"EACCES"},
}

func genC15(rt *rapid.T, c *Ctx) C15Case {
	docs, err := readAgentDocs(c.Snap.Src)
	if err != nil {
		rt.Fatalf("%v", err)
	}
	k := C15Case{Agent: docs[rapid.IntRange(0, len(docs)-1).Draw(rt, "agent")].Cmd, Form: rapid.SampledFrom([]string{"default", "user", "path"}).Draw(rt, "form")}
	n := rapid.IntRange(1, 6).Draw(rt, "nops")
	for i := 0; i < n; i++ {
		k.Ops = append(k.Ops, C15Op{
			Op:    rapid.SampledFrom([]string{"seed-old", "crash", "crash", "fail", "fail", "ok"}).Draw(rt, "op"),
			Point: rapid.IntRange(0, 40).Draw(rt, "point"),
			Errno: rapid.IntRange(0, 3).Draw(rt, "errno"),
		})
	}
	return k
}

type c15Env struct {
	c       *Ctx
	root    string
	home    string
	proj    string
	base    string
	skill   string
	args    []string
	exp     map[string]string // rel -> sha of embedded content
	order   []string          // installation order of the files (from a dry run)
	points  []fsx.Syscall     // destination syscalls of a dry run, with per-name ordinals
	ordinal []int
	allCount map[string]int // syscall name -> number of invocations in the dry run (all threads, all paths)
}

func (e *c15Env) env() []string {
	return append(pipe.Env(), "HOME="+e.home, "GOMAXPROCS=1")
}

func (e *c15Env) argv() []string {
	return append([]string{e.c.Snap.CLI, "llm-setup"}, e.args...)
}

// dryRun records the destination syscalls of one fault-free installation into a scratch tree.
func (e *c15Env) dryRun() error {
	tr := fsx.RunTraced(e.proj, e.env(), e.argv(), nil, filepath.Join(e.root, "dry.log"))
	if tr.Err != nil || tr.Exit != 0 {
		return fmt.Errorf("dry run failed: exit=%d err=%v stderr=%s", tr.Exit, tr.Err, tr.Stderr)
	}
	count := map[string]int{}
	e.allCount = map[string]int{}
	for _, s := range tr.Calls {
		e.allCount[s.Name]++
		count[s.PID+"/"+s.Name]++
		if s.Touches(e.base) {
			e.points = append(e.points, s)
			e.ordinal = append(e.ordinal, count[s.PID+"/"+s.Name])
			if s.Name == "renameat" && len(s.Paths) > 0 {
				if rel := fsx.Rel(e.skill, s.Paths[len(s.Paths)-1]); rel != "" {
					e.order = append(e.order, rel)
				}
			}
		}
	}
	// remove what the dry run installed
	_ = os.RemoveAll(filepath.Join(e.root, "proj"))
	_ = os.RemoveAll(filepath.Join(e.root, "home"))
	_ = os.RemoveAll(filepath.Join(e.root, "custom"))
	_ = os.MkdirAll(e.home, 0o755)
	_ = os.MkdirAll(e.proj, 0o755)
	if len(e.points) == 0 {
		return fmt.Errorf("dry run touched no destination path")
	}
	return nil
}

type fileState struct {
	present bool
	sum     string
	mode    os.FileMode
}

func (e *c15Env) snapshot() map[string]fileState {
	out := map[string]fileState{}
	for rel := range e.exp {
		p := filepath.Join(e.skill, rel)
		st, err := os.Lstat(p)
		if err != nil {
			out[rel] = fileState{}
			continue
		}
		b, _ := os.ReadFile(p)
		out[rel] = fileState{present: true, sum: fsx.SumBytes(b), mode: st.Mode().Perm()}
	}
	return out
}

func (e *c15Env) tempFiles() []string {
	var out []string
	_ = filepath.Walk(e.base, func(p string, info os.FileInfo, err error) error {
		if err == nil && !info.IsDir() && strings.HasPrefix(filepath.Base(p), ".tmp-") {
			out = append(out, p)
		}
		return nil
	})
	return out
}

func newC15Env(c *Ctx, k C15Case) (*c15Env, error) {
	docs, err := readAgentDocs(c.Snap.Src)
	if err != nil {
		return nil, err
	}
	var d *agentDoc
	for i := range docs {
		if docs[i].Cmd == k.Agent {
			d = &docs[i]
		}
	}
	if d == nil {
		return nil, fmt.Errorf("unknown agent %s", k.Agent)
	}
	exp, _, err := expectedTree(c.Snap.Src)
	if err != nil {
		return nil, err
	}
	root := c.Dir("c15-")
	root, _ = filepath.EvalSymlinks(root)
	e := &c15Env{c: c, root: root, home: filepath.Join(root, "home"), proj: filepath.Join(root, "proj"), exp: exp}
	_ = os.MkdirAll(e.home, 0o755)
	_ = os.MkdirAll(e.proj, 0o755)
	switch k.Form {
	case "user":
		e.base = filepath.Join(e.home, d.User)
		e.args = []string{k.Agent, "--user"}
	case "path":
		e.base = filepath.Join(root, "custom", "dir")
		e.args = []string{k.Agent, "--path", e.base}
	default:
		e.base = filepath.Join(e.proj, d.Project)
		e.args = []string{k.Agent}
	}
	e.skill = filepath.Join(e.base, "kessoku-di")
	if err := e.dryRun(); err != nil {
		os.RemoveAll(root)
		return nil, err
	}
	return e, nil
}

// runOp executes one history step and checks the invariants. prior is the state before the step.
func (e *c15Env) runOp(op C15Op, idx int, trace *[]string, v *Verdict) bool {
	fail := func(kind, site, f string, a ...any) bool {
		v.Kind, v.Site = kind, site
		v.Fail = fmt.Sprintf(f, a...) + fmt.Sprintf("\nhistory: %v", *trace)
		return false
	}
	before := e.snapshot()
	tempsBefore := map[string]bool{}
	for _, t := range e.tempFiles() {
		tempsBefore[t] = true
	}
	switch op.Op {
	case "seed-old":
		for rel := range e.exp {
			p := filepath.Join(e.skill, rel)
			_ = os.MkdirAll(filepath.Dir(p), 0o755)
			_ = os.WriteFile(p, []byte("OLD CONTENT of "+rel+"\n"), 0o600)
			_ = os.Chmod(p, 0o600)
		}
		*trace = append(*trace, "seed-old")
		return true
	case "ok":
		r := pipe.Run(pipe.Cmd{Dir: e.proj, Env: e.env(), Args: e.argv()})
		v.Evals++
		*trace = append(*trace, fmt.Sprintf("ok->%d", r.Exit))
		if r.Exit != 0 {
			return fail("later-run-fails", "install after faults", "a fault-free installation after the previous steps exits %d: %s", r.Exit, tail(r.Stderr, 400))
		}
		after := e.snapshot()
		for rel, sum := range e.exp {
			st := after[rel]
			if !st.present || st.sum != sum || st.mode != 0o644 {
				return fail("later-run-incomplete", rel, "after a successful run %s is present=%v mode=%04o contentOK=%v", rel, st.present, st.mode, st.sum == sum)
			}
		}
		return true
	}
	// crash / fail at a destination syscall of the dry run
	pi := op.Point % len(e.points)
	pt := e.points[pi]
	when := e.ordinal[pi]
	if op.Name != "" {
		pt = fsx.Syscall{Name: op.Name}
		when = op.When
	}
	inj := &fsx.Inject{Syscall: pt.Name, When: when, Signal: op.Op == "crash"}
	if op.Op == "fail" {
		errs := c15Errnos[pt.Name]
		if len(errs) == 0 {
			return true
		}
		inj.Errno = errs[op.Errno%len(errs)]
	}
	tr := fsx.RunTraced(e.proj, e.env(), e.argv(), inj, filepath.Join(e.root, fmt.Sprintf("run%d.log", idx)))
	v.Evals++
	if tr.Err != nil && !tr.Killed {
		// strace itself failed or was stopped by the watchdog: nothing can be concluded
		e.c.Rep.Discard("trace-run-error")
		return true
	}
	after := e.snapshot()
	// what was actually hit?
	hit := -1
	renamesBefore := 0
	for i, s := range tr.Calls {
		if s.Injected || s.Killed && s.Name == pt.Name {
			hit = i
			break
		}
		if s.Name == "renameat" && s.OK() && s.Touches(e.skill) {
			renamesBefore++
		}
	}
	desc := fmt.Sprintf("%s(%s#%d", op.Op, pt.Name, when)
	if op.Op == "fail" {
		desc += "," + inj.Errno
	}
	desc += fmt.Sprintf(")->exit %d", tr.Exit)
	*trace = append(*trace, desc)
	if hit < 0 {
		e.c.Rep.Discard("injection-misfire")
		// nothing was injected: the run must simply have succeeded
		if tr.Exit != 0 {
			return fail("unexplained-failure", desc, "no fault was injected but the installer exited %d: %s", tr.Exit, tail(tr.Stderr, 300))
		}
		return true
	}
	hs := tr.Calls[hit]
	outside := !hs.Touches(e.base)
	if !outside {
		k := 0
		for i := 0; i < hit; i++ {
			if tr.Calls[i].Name == hs.Name && tr.Calls[i].Touches(e.base) {
				k++
			}
		}
		e.c.Rep.Feature(fmt.Sprintf("dest-hit:%s:%s#%d", op.Op, hs.Name, k+1))
	}
	if outside {
		e.c.Rep.Discard("injection-outside-destination")
		if os.Getenv("VERIF_C15_DEBUG") != "" {
			fmt.Fprintf(os.Stderr, "DEBUG outside hit: %s(%s) = %s\n", hs.Name, hs.Args, hs.Ret)
		}
	}
	if !outside {
		v.Features["point:"+op.Op+":"+hs.Name] = true
	}
	if !outside && hs.Name == pt.Name {
		e.c.Rep.Feature("inject:hit-intended-destination-call")
	} else {
		e.c.Rep.Feature("inject:hit-other-call")
	}
	e.c.Rep.NonTrivial(fmt.Sprintf("%s:%s:%d:%s", op.Op, pt.Name, pi, inj.Errno))
	cur := ""
	if renamesBefore < len(e.order) {
		cur = e.order[renamesBefore]
	}
	// per-file atomicity: absent, entirely previous (content and mode), or entirely new with final permissions
	for rel, sum := range e.exp {
		st := after[rel]
		prev := before[rel]
		switch {
		case !st.present:
		case prev.present && st == prev:
		case st.sum == sum && st.mode == 0o644:
		default:
			kind := "mixed-content"
			if st.sum == sum {
				kind = "new-content-wrong-mode"
			} else if prev.present && st.sum == prev.sum {
				kind = "old-content-mode-changed"
			}
			return fail(kind, op.Op+" at "+pt.Name, "after %s destination file %s is neither absent, nor its previous content (mode %04o), nor the new content with mode 0644: present=%v mode=%04o newContent=%v oldContent=%v", desc, rel, prev.mode, st.present, st.mode, st.sum == sum, prev.present && st.sum == prev.sum)
		}
	}
	if op.Op == "crash" {
		if !tr.Killed {
			e.c.Rep.Discard("crash-not-delivered")
		}
		return true
	}
	if outside {
		// an error injected into a call that is not a filesystem step of the installation
		// (runtime housekeeping): only the atomicity invariant above applies
		return true
	}
	// error without crash
	if tr.Exit == 0 {
		return fail("error-ignored", "fail at "+pt.Name, "step %s failed with %s but the installer exited 0", pt.Name, inj.Errno)
	}
	if strings.TrimSpace(tr.Stderr) == "" {
		return fail("silent-error", "fail at "+pt.Name, "installer failed without reporting an error")
	}
	var tmps []string
	for _, t := range e.tempFiles() {
		if !tempsBefore[t] { // temporary files of earlier crashes are not this run's business
			tmps = append(tmps, t)
		}
	}
	if len(tmps) > 0 {
		return fail("temp-left-behind", "fail at "+pt.Name, "installer failed at %s (%s) and left temporary files behind: %v", pt.Name, inj.Errno, tmps)
	}
	if cur != "" {
		if after[cur] != before[cur] {
			return fail("previous-file-not-intact", "fail at "+pt.Name, "installing %s failed at %s (%s) but the previous destination file was not left intact: before %+v after %+v", cur, pt.Name, inj.Errno, before[cur], after[cur])
		}
	}
	return true
}

func checkC15(c *Ctx, k C15Case) *Verdict {
	v := &Verdict{Features: map[string]bool{"form:" + k.Form: true}}
	e, err := newC15Env(c, k)
	if err != nil {
		v.Discard, v.Detail = "dry-run-error", err.Error()
		return v
	}
	defer os.RemoveAll(e.root)
	var trace []string
	faults := 0
	seeded := false
	for i, op := range k.Ops {
		if op.Op == "crash" || op.Op == "fail" {
			faults++
		}
		if op.Op == "seed-old" {
			seeded = true
		}
		if !e.runOp(op, i, &trace, v) {
			return v
		}
	}
	// a final fault-free run must always complete the installation
	if !e.runOp(C15Op{Op: "ok"}, len(k.Ops), &trace, v) {
		return v
	}
	v.NonTrivial = faults >= 1
	v.Features["history:faults>=2"] = faults >= 2
	v.Features["history:over-old-install"] = seeded && faults >= 1
	v.Sample = map[string]any{"agent": k.Agent, "form": k.Form, "history": trace}
	return v
}

func TestC15(t *testing.T)       { runProperty(t, "C15", genC15, checkC15) }
func TestReplayC15(t *testing.T) { runReplay(t, "C15", checkC15) }

// TestWitnessC15 enumerates every single crash point and every single error point
// (all errnos) on a fresh and on a previously installed destination.
func TestWitnessC15(t *testing.T) {
	runWitnesses(t, "C15", checkC15, func(c *Ctx) {
		probe, err := newC15Env(c, C15Case{Agent: "claude-code", Form: "default"})
		if err != nil {
			c.Rep.Inconclusive = "dry run: " + err.Error()
			return
		}
		n := len(probe.points)
		var names []string
		for _, p := range probe.points {
			names = append(names, p.Name)
		}
		probeCounts := probe.allCount
		os.RemoveAll(probe.root)
		c.Rep.Extra["destination_syscalls_per_install"] = float64(n)
		c.Rep.Extra["destination_syscall_sequence"] = strings.Join(names, " ")
		runs := 0
		counts := probeCounts
		var snames []string
		for n := range counts {
			if len(c15Errnos[n]) > 0 {
				snames = append(snames, n)
			}
		}
		sort.Strings(snames)
		for _, seeded := range []bool{false, true} {
			for _, sn := range snames {
				// strace counts invocations per thread: sweep every ordinal up to the total number of
				// invocations of the syscall, judge each run by what was actually hit
				for when := 1; when <= counts[sn]; when++ {
					var variants []C15Op
					variants = append(variants, C15Op{Op: "crash", Name: sn, When: when})
					for ei := range c15Errnos[sn] {
						variants = append(variants, C15Op{Op: "fail", Name: sn, When: when, Errno: ei})
					}
					for _, op := range variants {
						cs := C15Case{Agent: "claude-code", Form: "default"}
						if seeded {
							cs.Ops = append(cs.Ops, C15Op{Op: "seed-old"})
						}
						cs.Ops = append(cs.Ops, op)
						v := checkC15(c, cs)
						runs++
						if msg := c.record(cs, v); msg != "" {
							return
						}
					}
				}
			}
		}
		c.Rep.Extra["single_fault_enumeration_runs"] = float64(runs)
		c.Rep.Extra["single_fault_enumeration_exhaustive"] = true
		keys := []string{}
		crashHit, failHit := 0, 0
		for k := range c.Rep.Features {
			if strings.HasPrefix(k, "dest-hit:") {
				keys = append(keys, strings.TrimPrefix(k, "dest-hit:"))
				if strings.HasPrefix(k, "dest-hit:crash:") {
					crashHit++
				} else {
					failHit++
				}
			}
		}
		sort.Strings(keys)
		c.Rep.Extra["destination_points_hit"] = strings.Join(keys, " ")
		c.Rep.Extra["destination_points_hit_as_crash"] = float64(crashHit)
		c.Rep.Extra["destination_points_hit_as_error"] = float64(failHit)
	})
}
