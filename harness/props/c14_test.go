package props

import (
	"bytes"
	"fmt"
	"os"
	"path/filepath"
	"regexp"
	"strings"
	"testing"

	"pgregory.net/rapid"

	"verifharness/band"
	"verifharness/mat"
	"verifharness/pipe"
	"verifharness/spec"
)

type C14Case struct {
	W      *spec.WCase
	Plant  string // "" | syntax | type-error | mixed-packages | dup-set | missing-ctor
	Prior  bool   // an output file already exists
	Output string // "" (default kessoku.go) or custom name
	Invoke string `json:",omitempty"` // "" = in the package directory without pattern | root-all = from the module root with ./... and -o app/<out>
}

func genC14(rt *rapid.T, c *Ctx) C14Case {
	allow := wireGated(c, "C14")
	k := C14Case{Prior: rapid.Bool().Draw(rt, "prior")}
	if rapid.IntRange(0, 99).Draw(rt, "planted") < 35 {
		k.Plant = rapid.SampledFrom([]string{"syntax", "type-error", "mixed-packages", "dup-set", "missing-ctor", "type-error-nonwire", "syntax-nonwire", "mixed-packages-same-name"}).Draw(rt, "plant")
	}

	o := spec.WOpts{MaxUnits: 8, MaxFiles: 2, Allow: allow, OnExclude: func(f string) { c.Rep.Exclude(f) }, ExtNames: rapid.Bool().Draw(rt, "extnames")}
	k.W = spec.GenWire(rt, o)
	if rapid.IntRange(0, 9).Draw(rt, "customout") < 3 {
		k.Output = "migrated_di.go"
	}
	if k.Plant == "" && rapid.IntRange(0, 3).Draw(rt, "invoke") == 3 {
		k.Invoke = "root-all"
	}
	return k
}

// a migrated set: var X = kessoku.Set(...  or, for a set that merely names another one, var X = Y
var reSetVar = regexp.MustCompile(`(?m)^var (\w+) = (?:kessoku\.Set\(|\w+$)`)

func checkC14(c *Ctx, k C14Case) *Verdict {
	v := &Verdict{Features: wireFeatures(k.W)}
	w := k.W
	if len(w.Files) == 0 || len(w.Files[0].Injectors) == 0 {
		v.Discard = "empty-case"
		return v
	}
	plantMissingCtorFile := k.Plant == "missing-ctor"
	p, d, det := newWirePair(c, w)
	defer p.Close()
	if d != "" {
		v.Discard, v.Detail = d, det
		return v
	}
	out := "kessoku.go"
	var extra []string
	if k.Output != "" {
		out = k.Output
		extra = append(extra, "-o", out)
	}
	if k.Invoke == "root-all" {
		// all packages of the module, most of them without any wire configuration; the output
		// path is given relative to the module root
		extra = []string{"-o", filepath.Join(mat.UserPkg, out), "./..."}
		p.migrateDir = p.B.Root
	}
	v.Features["invoke:"+k.Invoke] = k.Invoke != ""
	outPath := filepath.Join(p.B.AppDir, out)
	priorContent := []byte("package " + mat.UserPkg + "\n\n// previous output\n")
	if k.Prior {
		_ = os.WriteFile(outPath, priorContent, 0o644)
	}
	v.Features["plant:"+k.Plant] = k.Plant != ""
	v.Features["prior-output"] = k.Prior
	v.Features["custom-output"] = k.Output != ""
	files := len(w.Files)
	v.NonTrivial = files >= 2 || len(w.Spec.Exts) > 0 || k.Plant != ""
	// plants
	switch k.Plant {
	case "syntax":
		appendFile(filepath.Join(p.B.AppDir, "wire.go"), "\nfunc broken( {\n")
	case "type-error":
		appendFile(filepath.Join(p.B.AppDir, "wire.go"), "\nvar _ int = \"not an int\"\n")
	case "type-error-nonwire":
		// the error sits in a file of the package that does not import wire at all
		appendFile(filepath.Join(p.B.AppDir, "providers.go"), "\nvar _ int = \"not an int\"\n")
	case "syntax-nonwire":
		appendFile(filepath.Join(p.B.AppDir, "providers.go"), "\nfunc broken( {\n")
	case "dup-set":
		name := "DupSet"
		for _, f := range w.Files {
			if len(f.Sets) > 0 {
				name = f.Sets[0].Name
			}
		}
		if name == "DupSet" {
			appendFile(filepath.Join(p.B.AppDir, "wire.go"), "\nvar DupSet = wire.NewSet()\n")
		}
		_ = os.WriteFile(filepath.Join(p.B.AppDir, "wire_dup.go"), []byte("//go:build wireinject\n\npackage "+mat.UserPkg+"\n\nimport \"github.com/google/wire\"\n\nvar "+name+" = wire.NewSet()\n"), 0o644)
	case "missing-ctor":
		if plantMissingCtorFile {
			// a second wire file whose Bind has no New<Type> constructor, next to files that migrate fine
			name := "wire_zz_bad.go"
			if k.Prior {
				name = "wire_aa_bad.go" // sorts before wire.go
			}
			_ = os.WriteFile(filepath.Join(p.B.AppDir, name), []byte("//go:build wireinject\n\npackage "+mat.UserPkg+"\n\nimport \"github.com/google/wire\"\n\ntype BadIface interface{ BadM() }\n\ntype BadImpl struct{}\n\nfunc (*BadImpl) BadM() {}\n\nfunc ProvideBadImpl() *BadImpl { return &BadImpl{} }\n\n// the binding has no provider in its list and there is no NewBadImpl either\nvar BadSet = wire.NewSet(wire.Bind(new(BadIface), new(*BadImpl)))\n"), 0o644)
		}
	case "mixed-packages-same-name":
		// a second package with wire configuration that has the SAME package name (two commands, two "app")
		other := filepath.Join(p.B.Root, "other", mat.UserPkg)
		_ = os.MkdirAll(other, 0o755)
		_ = os.WriteFile(filepath.Join(other, "wire.go"), []byte("//go:build wireinject\n\npackage "+mat.UserPkg+"\n\nimport \"github.com/google/wire\"\n\ntype X struct{}\n\nfunc NewX() *X { return &X{} }\n\nvar OtherSet = wire.NewSet(NewX)\n"), 0o644)
		extra = append(extra, "./", "../other/"+mat.UserPkg)
	case "mixed-packages":
		other := filepath.Join(p.B.Root, "other")
		_ = os.MkdirAll(other, 0o755)
		_ = os.WriteFile(filepath.Join(other, "wire.go"), []byte("//go:build wireinject\n\npackage other\n\nimport \"github.com/google/wire\"\n\ntype X struct{}\n\nfunc NewX() *X { return &X{} }\n\nvar OtherSet = wire.NewSet(NewX)\n"), 0o644)
		extra = append(extra, "./", "../other")
	}
	fail := func(kind, site, f string, a ...any) *Verdict {
		v.Kind, v.Site = kind, site
		v.Fail = fmt.Sprintf(f, a...) + fmt.Sprintf("\nplant=%q prior=%v output=%s\nmigrate exit=%d stderr: %s\n", k.Plant, k.Prior, out, p.Mig.Exit, tail(p.Mig.Stderr, 800)) + p.dump()
		return v
	}
	if k.Plant == "" {
		// valid input must be accepted by wire (otherwise it is not a wire input at all)
		if err := p.runWire(); err != nil {
			v.Discard, v.Detail = "wire-build-error", err.Error()
			return v
		}
		if p.WireOut.Exit != 0 {
			v.Discard, v.Detail = "wire-rejected", tail(p.WireOut.Stderr, 500)
			return v
		}
	}
	p.runMigrate(extra...)
	v.Evals++
	if p.Mig.Err != nil {
		v.Discard, v.Detail = "cli-run-error", fmt.Sprint(p.Mig.Err)
		return v
	}
	if k.Plant != "" {
		if p.Mig.Exit == 0 {
			return fail("accepted-invalid", k.Plant, "migrate exited 0 on an input with a planted %s", k.Plant)
		}
		got, err := os.ReadFile(outPath)
		if k.Prior {
			if err != nil || !bytes.Equal(got, priorContent) {
				return fail("output-on-failure", k.Plant, "migrate failed but the existing output file was changed or removed")
			}
		} else if err == nil {
			return fail("output-on-failure", k.Plant, "migrate failed but wrote %s", out)
		}
		// no stray output anywhere
		for _, n := range []string{"kessoku.go", "migrated_di.go"} {
			if n != out {
				if _, err := os.Stat(filepath.Join(p.B.AppDir, n)); err == nil {
					return fail("output-on-failure", k.Plant, "migrate failed but wrote %s", n)
				}
			}
		}
		v.Sample = map[string]any{"plant": k.Plant, "stderr": tail(p.Mig.Stderr, 200)}
		return v
	}
	if p.Mig.Exit != 0 {
		return fail("rejected-valid", errLine(p.Mig.Stderr), "migrate exits %d on a configuration wire accepts", p.Mig.Exit)
	}
	src, err := os.ReadFile(outPath)
	if err != nil {
		return fail("no-output", out, "migrate exited 0 without writing %s", out)
	}
	// gofmt-stable
	r := pipe.Run(pipe.Cmd{Dir: p.B.AppDir, Env: c.goEnv(), Args: []string{"gofmt", "-l", out}})
	if strings.TrimSpace(r.Stdout) != "" || r.Exit != 0 {
		d := pipe.Run(pipe.Cmd{Dir: p.B.AppDir, Env: c.goEnv(), Args: []string{"gofmt", "-d", out}})
		return fail("not-gofmt-stable", "gofmt -l", "output is not gofmt-stable:\n%s%s", tail(d.Stdout, 1500), r.Stderr)
	}
	// deterministic: two more runs in fresh processes
	for i := 0; i < 2; i++ {
		// same input again: the previous output is not part of the input (left in place it
		// would redeclare every migrated set next to the wire files)
		_ = os.Remove(outPath)
		againDir := p.B.AppDir
		if p.migrateDir != "" {
			againDir = p.migrateDir
		}
		again := pipe.Run(pipe.Cmd{Dir: againDir, Env: c.goEnv(fmt.Sprintf("GOMAXPROCS=%d", 1+7*i)), Args: append([]string{c.Snap.CLI, "migrate"}, extra...)})
		v.Evals++
		got, _ := os.ReadFile(outPath)
		if again.Exit != 0 || !bytes.Equal(got, src) {
			return fail("nondeterministic", firstDiff(string(src), string(got)), "repeated migration gives different output (exit %d)", again.Exit)
		}
	}
	// set census
	wantSets := map[string]int{}
	for _, f := range w.Files {
		for _, s := range f.Sets {
			wantSets[s.Name]++
		}
	}
	gotSets := map[string]int{}
	for _, m := range reSetVar.FindAllStringSubmatch(string(src), -1) {
		gotSets[m[1]]++
	}
	for n := range wantSets {
		if gotSets[n] != 1 {
			return fail("set-census", n, "set %s is declared %d times in the migrated file", n, gotSets[n])
		}
	}
	for n := range gotSets {
		if wantSets[n] == 0 {
			return fail("set-census", n, "migrated file declares a set %s that the input does not have", n)
		}
	}
	// compiles in the source package once the wire files are set aside
	p.setAsideWire()
	an, err := band.Load(c.importer(), mat.Module+"/"+mat.UserPkg, p.B.AppDir, c.caseDirs(w.Spec, p.B))
	if err != nil {
		return fail("unparsable-output", out, "migrated package cannot be loaded: %v", err)
	}
	if len(an.Errors) > 0 {
		e := an.Errors[0]
		return fail("does-not-compile", errClass(e.Msg), "migrated package does not type-check with the wire files set aside: %v", an.Errors)
	}
	v.Sample = map[string]any{"kessoku.go": string(src)}
	return v
}

func appendFile(path, s string) {
	f, err := os.OpenFile(path, os.O_APPEND|os.O_WRONLY, 0o644)
	if err == nil {
		_, _ = f.WriteString(s)
		f.Close()
	}
}

func TestC14(t *testing.T)        { runProperty(t, "C14", genC14, checkC14) }
func TestReplayC14(t *testing.T)  { runReplay(t, "C14", checkC14) }
func TestWitnessC14(t *testing.T) { runWitnesses(t, "C14", checkC14, nil) }
