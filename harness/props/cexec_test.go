package props

import (
	"fmt"
	"os"
	"sort"
	"strings"
	"testing"

	"pgregory.net/rapid"

	"verifharness/spec"
)

// ---------------------------------------------------------------- shared generator

func genExec(prop string, minProv, maxProv int, asyncMode string, needErr bool) func(rt *rapid.T, c *Ctx) KCase {
	return func(rt *rapid.T, c *Ctx) KCase {
		o := execOpts(c, spec.Opts{MinProv: minProv, MaxProv: maxProv, MaxInjectors: 2, MaxFiles: 2, AsyncMode: asyncMode})
		if asyncMode == "" {
			o.AsyncMode = rapid.SampledFrom([]string{"some", "some", "all"}).Draw(rt, "asyncmode")
		}
		o.WideBias = prop == "C03" || prop == "C01"
		cs := spec.Gen(rt, o)
		k := KCase{Spec: cs, Salt: uint32(rapid.IntRange(1, 1<<16).Draw(rt, "salt"))}
		n := 4
		if c.Thorough() {
			n = 10
		}
		for i := 0; i < n; i++ {
			k.Plans = append(k.Plans, &Plan{Policy: "choices", Choices: rapid.SliceOfN(rapid.IntRange(0, 6), 0, 16).Draw(rt, "choices"),
				Latency: rapid.SliceOfN(rapid.SampledFrom([]int{0, 0, 1, 3, 30, 120, 300}), 1, 12).Draw(rt, "latency")})
		}
		return k
	}
}

// logged returns the ids of the needed units that are logged by the runtime (providers and values).
func loggedNeeded(r *spec.Resolved) []int {
	var out []int
	for _, u := range r.Needed {
		if u.PID() >= 0 {
			out = append(out, u.PID())
		}
	}
	sort.Ints(out)
	return out
}

func fallibleNeeded(r *spec.Resolved) []int {
	var out []int
	for _, u := range r.Needed {
		if u.Kind == "prov" && u.Prov.Err {
			out = append(out, u.Prov.ID)
		}
	}
	sort.Ints(out)
	return out
}

// loggedProducers returns, for a logged unit, the logged units whose results reach it
// (field reads are transparent: their producer is the struct's supplier).
func loggedProducers(r *spec.Resolved, u *spec.Unit) []int {
	seen := map[int]bool{}
	var walk func(x *spec.Unit)
	walk = func(x *spec.Unit) {
		for _, p := range r.Producers(x) {
			if p.PID() >= 0 {
				seen[p.PID()] = true
			} else {
				walk(p)
			}
		}
	}
	walk(u)
	var out []int
	for p := range seen {
		out = append(out, p)
	}
	sort.Ints(out)
	return out
}

type injRun struct {
	name  string
	r     *spec.Resolved
	js    map[string]uint32
	args  map[spec.TypeID]uint32
	ref   *spec.EvalResult
	first int // index of the first plan of this injector
}

type execOutcome struct {
	b      *Built
	plans  []*Plan
	execs  []*Exec
	runs   map[string]*injRun
	byPlan map[int][]*Exec
}

// planner produces the plans of one injector.
type planner func(ir *injRun, k KCase, b *Built) []*Plan

func runExec(c *Ctx, k KCase, v *Verdict, race bool, mk planner) *execOutcome {
	return runExecY(c, k, v, race, false, mk)
}

func runExecY(c *Ctx, k KCase, v *Verdict, race, yields bool, mk planner) *execOutcome {
	pr, bin := runPipelineY(c, k.Spec, race, yields)
	if pr.Discard != "" {
		if pr.B != nil {
			pr.B.Close()
		}
		v.Discard, v.Detail = pr.Discard, pr.Detail
		return nil
	}
	b := pr.B
	out := &execOutcome{b: b, runs: map[string]*injRun{}, byPlan: map[int][]*Exec{}}
	var names []string
	for n := range b.Inj {
		names = append(names, n)
	}
	sort.Strings(names)
	for _, n := range names {
		r := b.Res[n]
		js, m := argHashes(r, k.Salt)
		ir := &injRun{name: n, r: r, js: js, args: m, ref: r.Eval(m, nil), first: len(out.plans)}
		out.runs[n] = ir
		for _, p := range mk(ir, k, b) {
			p.Inj, p.Args, p.Async = n, js, asyncPIDs(r)
			if p.Mode == "" {
				p.Mode = "ctl"
			}
			if p.Repeat == 0 {
				p.Repeat = 1
			}
			out.plans = append(out.plans, p)
		}
	}
	if len(out.plans) == 0 {
		b.Close()
		v.Discard = "no-plans"
		return nil
	}
	execs, err := b.execPlans(bin, out.plans, race)
	if err != nil {
		v.Discard, v.Detail = "inner-run-error", err.Error()
		b.Close()
		return nil
	}
	out.execs = execs
	for _, ex := range execs {
		out.byPlan[ex.Plan] = append(out.byPlan[ex.Plan], ex)
	}
	v.Evals += len(execs)
	return out
}

func planDesc(p *Plan) string {
	s := p.Policy
	if p.Policy == "starve" {
		s += fmt.Sprintf("(%d)", p.Starve)
	}
	if p.Yields {
		s += " +yields"
	}
	if p.Policy == "choices" {
		s += fmt.Sprint(p.Choices)
	}
	if len(p.Fail) > 0 {
		s += fmt.Sprintf(" fail=%v", p.Fail)
	}
	if p.CancelAt != -2 {
		s += fmt.Sprintf(" cancelAt=%d", p.CancelAt)
	}
	if p.Mode == "free" {
		s = "free latency=" + fmt.Sprint(p.Latency)
	}
	return s
}

func evString(evs []Event) string {
	var sb strings.Builder
	for _, e := range evs {
		switch e.K {
		case "enter":
			fmt.Fprintf(&sb, "enter(%d%v) ", e.P, e.Args)
		case "exit":
			if e.Err {
				fmt.Fprintf(&sb, "exit(%d,ERR) ", e.P)
			} else {
				fmt.Fprintf(&sb, "exit(%d) ", e.P)
			}
		case "release":
		default:
			fmt.Fprintf(&sb, "%s(%d) ", e.K, e.P)
		}
	}
	return sb.String()
}

func (o *execOutcome) failf(v *Verdict, ex *Exec, kind, site, f string, a ...any) *Verdict {
	v.Kind, v.Site = kind, site
	p := o.plans[ex.Plan]
	v.Fail = fmt.Sprintf(f, a...) + fmt.Sprintf("\ninjector %s, plan %s, repetition %d\nevents: %s\n", ex.Inj, planDesc(p), ex.Rep, evString(ex.Events))
	if p.Policy == "starve" && p.Starve >= 200000 {
		v.Fail += "starved yield point: " + o.b.Yields[p.Starve-200000] + "\n"
	}
	if len(ex.Blocked) > 0 {
		v.Fail += fmt.Sprintf("blocked goroutines: %v\n", ex.Blocked)
	}
	if ex.Stacks != "" {
		v.Fail += "stacks:\n" + tail(ex.Stacks, 2500) + "\n"
	}
	if ex.CrashLog != "" {
		v.Fail += "crash log:\n" + tail(ex.CrashLog, 2500) + "\n"
	}
	v.Fail += readBand(o.b, ex.Inj)
	return v
}

// threadsOf returns the number of threads of the emitted injector and whether it has cross-thread waits.
func threadsOf(b *Built, name string) (int, int) {
	fn := b.An.Funcs[name]
	if fn == nil {
		return 0, 0
	}
	return fn.Threads, fn.Waits
}

// bandLineText returns the text of line n of the injector's band file.
func bandLineText(b *Built, inj string, site string) string {
	// site looks like "state @ file_band.go:NN"
	i := strings.LastIndex(site, ":")
	if i < 0 {
		return ""
	}
	var ln int
	fmt.Sscanf(site[i+1:], "%d", &ln)
	src, err := os.ReadFile(b.bandPath(b.InjFile[inj]))
	if err != nil {
		return ""
	}
	lines := strings.Split(string(src), "\n")
	if ln >= 1 && ln <= len(lines) {
		return strings.TrimSpace(lines[ln-1])
	}
	return ""
}

// standard fault-free schedules: starve every logged unit, fifo, lifo, drawn choices.
func faultFreePlans(ir *injRun, k KCase) []*Plan {
	var ps []*Plan
	ps = append(ps, &Plan{Policy: "fifo", CancelAt: -2}, &Plan{Policy: "lifo", CancelAt: -2})
	for _, p := range loggedNeeded(ir.r) {
		ps = append(ps, &Plan{Policy: "starve", Starve: p, CancelAt: -2})
	}
	for _, t := range k.Plans {
		ps = append(ps, &Plan{Policy: "choices", Choices: t.Choices, CancelAt: -2})
	}
	return ps
}

// yieldPlans: schedules at statement granularity on the instrumented emitted code: FIFO, LIFO,
// starve(y) for every yield point y of the injector (thread held right before that statement
// while everything else runs), drawn choices.
func yieldPlans(ir *injRun, k KCase, b *Built) []*Plan {
	ps := []*Plan{{Policy: "fifo", CancelAt: -2, Yields: true}, {Policy: "lifo", CancelAt: -2, Yields: true}}
	var ids []int
	for id, d := range b.Yields {
		if strings.HasPrefix(d, ir.name+" ") {
			ids = append(ids, id)
		}
	}
	sort.Ints(ids)
	for _, id := range ids {
		ps = append(ps, &Plan{Policy: "starve", Starve: 200000 + id, CancelAt: -2, Yields: true})
	}
	for _, t := range k.Plans {
		ps = append(ps, &Plan{Policy: "choices", Choices: t.Choices, CancelAt: -2, Yields: true})
	}
	return ps
}

// ---------------------------------------------------------------- C01

func checkC01(c *Ctx, k KCase) *Verdict {
	v := &Verdict{Features: caseFeatures(k.Spec)}
	// one build of the yield-instrumented emitted code serves both the provider-granular plans
	// (Yields off: yield points are no-ops) and the statement-granular ones
	o := runExecY(c, k, v, false, true, func(ir *injRun, k KCase, b *Built) []*Plan {
		if !ir.r.HasAsync {
			return []*Plan{{Policy: "fifo", CancelAt: -2}}
		}
		ps := faultFreePlans(ir, k)
		if th, _ := threadsOf(b, ir.name); th >= 2 {
			ps = append(ps, yieldPlans(ir, k, b)...)
			v.Features["yield-run"] = true
		}
		return ps
	})
	if o == nil {
		return v
	}
	defer o.b.Close()
	if res := c01Oracle(c, o, v, false); res != nil {
		return res
	}
	// free-running -race executions of the same case
	anyAsync := false
	for _, ir := range o.runs {
		th, w := threadsOf(o.b, ir.name)
		if th >= 2 && w >= 1 {
			anyAsync = true
		}
	}
	if anyAsync {
		v2 := &Verdict{Features: v.Features}
		o2 := runExec(c, k, v2, true, func(ir *injRun, k KCase, b *Built) []*Plan {
			if !ir.r.HasAsync {
				return nil
			}
			var ps []*Plan
			for _, t := range k.Plans {
				ps = append(ps, &Plan{Mode: "free", Latency: t.Latency, CancelAt: -2, Repeat: 3})
			}
			return ps
		})
		if o2 != nil {
			defer o2.b.Close()
			v.Evals += v2.Evals
			v.Features["race-run"] = true
			if res := c01Oracle(c, o2, v, true); res != nil {
				return res
			}
		} else if v2.Discard != "" && v2.Discard != "no-plans" {
			c.Rep.Discard("race:" + v2.Discard)
		}
	}
	v.Sample = describeCase(o.b)
	return v
}

func c01Oracle(c *Ctx, o *execOutcome, v *Verdict, free bool) *Verdict {
	for _, ex := range o.execs {
		ir := o.runs[ex.Inj]
		r := ir.r
		th, waits := threadsOf(o.b, ex.Inj)
		if th >= 2 && waits >= 1 {
			v.NonTrivial = true
			v.Features["threads>=2"] = true
		}
		if th >= 3 {
			v.Features["threads>=3"] = true
		}
		for _, rc := range ex.Races {
			if strings.Contains(rc, "_band.go") {
				return o.failf(v, ex, "data-race", "race in emitted code", "race detector reported a data race in the emitted injector:\n%s", tail(rc, 3000))
			}
		}
		if ex.Crashed || ex.Panic != "" || ex.Deadlock || !ex.Returned {
			c.Rep.Discard("no-return(C03)")
			continue
		}
		// (a) order: for every model edge P->Q, exit(P) precedes enter(Q). In free-running mode the
		// order of events comes from unsynchronised clock readings of different threads, which is
		// no proof of anything: there the value oracle (b) and the race detector decide.
		exited := map[int]bool{}
		valDone := map[int]bool{}
		prodOf := map[int][]int{}
		for _, u := range r.Needed {
			if u.PID() >= 0 {
				prodOf[u.PID()] = loggedProducers(r, u)
			}
		}
		for _, e := range ex.Events {
			switch e.K {
			case "exit":
				exited[e.P] = true
			case "val":
				valDone[e.P] = true
			case "enter":
				if free {
					continue
				}
				for _, p := range prodOf[e.P] {
					if !exited[p] && !valDone[p] {
						return o.failf(v, ex, "order", fmt.Sprintf("consumer before producer"), "provider %d entered before its producer %d returned", e.P, p)
					}
				}
			}
		}
		// (b) exact values: every call carries the hashes the model predicts, result equals reference
		if d := diffMultiset(callMultiset(ex.Events), expectedMultiset(ir.ref.Calls)); d != "" {
			return o.failf(v, ex, "values", "argument values", "a provider did not receive exactly the values its producers returned (or was not called exactly once): %s", d)
		}
		if ex.ErrNil && ex.Result != ir.ref.Value {
			return o.failf(v, ex, "values", "result", "injector result hash %d differs from the reference %d", ex.Result, ir.ref.Value)
		}
	}
	return nil
}

func TestC01(t *testing.T)        { runProperty(t, "C01", genExec("C01", 4, 12, "", false), checkC01) }
func TestReplayC01(t *testing.T)  { runReplay(t, "C01", checkC01) }
func TestWitnessC01(t *testing.T) { runWitnesses(t, "C01", checkC01, nil) }

// ---------------------------------------------------------------- C03

func checkC03(c *Ctx, k KCase) *Verdict {
	v := &Verdict{Features: caseFeatures(k.Spec)}
	o := runExecY(c, k, v, false, true, func(ir *injRun, k KCase, b *Built) []*Plan {
		ps := faultFreePlans(ir, k)
		ps = append(ps, &Plan{Policy: "holdasync", CancelAt: -2})
		if th, _ := threadsOf(b, ir.name); th >= 2 {
			// statement-granular schedules: a goroutine held between its last close and its
			// return must still be joined before the injector returns
			ps = append(ps, yieldPlans(ir, k, b)...)
			v.Features["yield-run"] = true
		}
		return ps
	})
	if o == nil {
		return v
	}
	defer o.b.Close()
	if res := c03Dynamic(c, o, v); res != nil {
		return res
	}
	return c03Rest(c, k, o, v)
}

func c03Dynamic(c *Ctx, o *execOutcome, v *Verdict) *Verdict {
	for _, ex := range o.execs {
		th, _ := threadsOf(o.b, ex.Inj)
		if th >= 2 {
			v.NonTrivial = true
			v.Features["threads>=2"] = true
		}
		if th >= 4 {
			v.Features["threads>=4"] = true
		}
		if th >= 7 {
			v.Features["threads>=7"] = true
		}
		if ex.Crashed {
			kind := "crash"
			if strings.Contains(ex.CrashLog, "close of closed channel") {
				kind = "double-close"
			}
			return o.failf(v, ex, kind, "process died", "the injector crashed the process")
		}
		if ex.Panic != "" {
			kind := "panic"
			if strings.Contains(ex.Panic, "close of closed channel") {
				kind = "double-close"
			}
			return o.failf(v, ex, kind, ex.Panic, "the injector panicked: %s", ex.Panic)
		}
		if ex.Deadlock || !ex.Returned {
			site := "?"
			if len(ex.Blocked) > 0 {
				site = stateOf(ex.Blocked[0]) + ": " + bandLineText(o.b, ex.Inj, ex.Blocked[0])
			}
			return o.failf(v, ex, "deadlock", site, "fault-free run never returns: every provider has returned or is not yet called, and all goroutines are blocked")
		}
		if len(ex.Gated) > 0 || len(ex.Alive) > 0 {
			return o.failf(v, ex, "unjoined-goroutine", fmt.Sprint(ex.Alive), "injector returned while goroutines it started were still running (providers still executing: %v; goroutines: %v)", ex.Gated, ex.Alive)
		}
		if len(ex.Blocked) > 0 || ex.Leaked {
			return o.failf(v, ex, "blocked-after-return", fmt.Sprint(ex.Blocked), "goroutines remain blocked after a successful return: %v", ex.Blocked)
		}
	}
	return nil
}

func c03Rest(c *Ctx, k KCase, o *execOutcome, v *Verdict) *Verdict {
	// structural invariants on the emitted code
	for name := range o.runs {
		if msg := structuralC03(o.b, name); msg != "" {
			v.Kind, v.Site = "structure", msg
			v.Fail = "structural invariant violated: " + msg + "\n" + readBand(o.b, name)
			return v
		}
	}
	v.Sample = describeCase(o.b)
	return v
}

func stateOf(site string) string {
	if i := strings.Index(site, " @ "); i >= 0 {
		return site[:i]
	}
	return site
}

func TestC03(t *testing.T)        { runProperty(t, "C03", genExec("C03", 4, 12, "", false), checkC03) }
func TestReplayC03(t *testing.T)  { runReplay(t, "C03", checkC03) }
func TestWitnessC03(t *testing.T) { runWitnesses(t, "C03", checkC03, nil) }

// ---------------------------------------------------------------- C05

func inputFreeAsync(r *spec.Resolved) []int {
	var out []int
	for _, u := range r.Needed {
		if u.Kind == "prov" && u.Async && len(u.Prov.Params) == 0 {
			out = append(out, u.Prov.ID)
		}
	}
	sort.Ints(out)
	return out
}

func genC05(rt *rapid.T, c *Ctx) KCase {
	o := execOpts(c, spec.Opts{MinProv: 4, MaxProv: 12, MaxInjectors: 2, MaxFiles: 1, AsyncMode: rapid.SampledFrom([]string{"some", "all", "some"}).Draw(rt, "asyncmode")})
	o.RootBias = true
	cs := spec.Gen(rt, o)
	return KCase{Spec: cs, Salt: uint32(rapid.IntRange(1, 1<<16).Draw(rt, "salt"))}
}

func checkC05(c *Ctx, k KCase) *Verdict {
	v := &Verdict{Features: caseFeatures(k.Spec)}
	o := runExec(c, k, v, false, func(ir *injRun, k KCase, b *Built) []*Plan {
		if len(inputFreeAsync(ir.r)) == 0 {
			return nil
		}
		return []*Plan{{Policy: "holdasync", CancelAt: -2, Repeat: 2}}
	})
	if o == nil {
		return v
	}
	defer o.b.Close()
	for _, ex := range o.execs {
		ir := o.runs[ex.Inj]
		want := inputFreeAsync(ir.r)
		if len(want) >= 2 && len(ir.r.Needed) > len(want) {
			v.NonTrivial = true
		}
		v.Features[fmt.Sprintf("inputfree-async=%d", min(len(want), 4))] = true
		if ex.Crashed || ex.Panic != "" {
			c.Rep.Discard("crash(C03)")
			continue
		}
		in := map[int]bool{}
		for _, p := range ex.HoldSet {
			in[p] = true
		}
		var missing []int
		for _, p := range want {
			if !in[p] {
				missing = append(missing, p)
			}
		}
		if len(missing) > 0 {
			return o.failf(v, ex, "not-concurrent", fmt.Sprintf("missing=%d of %d", len(missing), len(want)), "with every Async provider held inside its function, the input-free Async providers %v never started (inside: %v, holdSeen=%v, deadlock=%v): they wait for another Async provider", missing, ex.HoldSet, ex.HoldSeen, ex.Deadlock)
		}
	}
	v.Sample = describeCase(o.b)
	return v
}

func TestC05(t *testing.T)        { runProperty(t, "C05", genC05, checkC05) }
func TestReplayC05(t *testing.T)  { runReplay(t, "C05", checkC05) }
func TestWitnessC05(t *testing.T) { runWitnesses(t, "C05", checkC05, nil) }

// ---------------------------------------------------------------- C06 / C07 / C08

// faultPlans: every single needed fallible provider under several schedules, plus drawn pairs.
func faultPlans(ir *injRun, k KCase, reps int) []*Plan {
	var ps []*Plan
	fs := fallibleNeeded(ir.r)
	for _, f := range fs {
		ps = append(ps, &Plan{Policy: "fifo", Fail: []int{f}, CancelAt: -2, Repeat: reps})
		ps = append(ps, &Plan{Policy: "starve", Starve: f, Fail: []int{f}, CancelAt: -2, Repeat: reps})
		ps = append(ps, &Plan{Policy: "lifo", Fail: []int{f}, CancelAt: -2, Repeat: reps})
		for i, t := range k.Plans {
			if i >= 2 {
				break
			}
			ps = append(ps, &Plan{Policy: "choices", Choices: t.Choices, Fail: []int{f}, CancelAt: -2, Repeat: reps})
		}
	}
	// pairs / all
	if len(fs) >= 2 {
		for i, t := range k.Plans {
			a := fs[(i)%len(fs)]
			b := fs[(i+1+len(t.Choices))%len(fs)]
			if a != b {
				ps = append(ps, &Plan{Policy: "choices", Choices: t.Choices, Fail: []int{a, b}, CancelAt: -2, Repeat: reps})
			}
		}
		ps = append(ps, &Plan{Policy: "fifo", Fail: fs, CancelAt: -2, Repeat: reps})
		ps = append(ps, &Plan{Policy: "lifo", Fail: fs, CancelAt: -2, Repeat: reps})
	}
	return ps
}

// cancelPlans: cancellation before the call and after every release of a reference schedule.
func cancelPlans(ir *injRun, k KCase, reps int) []*Plan {
	var ps []*Plan
	n := len(loggedNeeded(ir.r))
	for at := -1; at < n; at++ {
		ps = append(ps, &Plan{Policy: "fifo", CancelAt: at, Repeat: reps})
		ps = append(ps, &Plan{Policy: "lifo", CancelAt: at, Repeat: reps})
		for i, t := range k.Plans {
			if i >= 2 {
				break
			}
			ps = append(ps, &Plan{Policy: "choices", Choices: t.Choices, CancelAt: at, Repeat: reps})
		}
	}
	return ps
}

func failedIn(ex *Exec) map[int]bool {
	m := map[int]bool{}
	for _, e := range ex.Events {
		if e.K == "exit" && e.Err {
			m[e.P] = true
		}
	}
	return m
}

// mainThreadHasCtxWait reports whether the main thread of the emitted function contains a
// select on ctx.Done() (the only place where the injector itself can substitute ctx.Err()).
func mainThreadHasCtxWait(b *Built, name string) bool {
	fn := b.An.Funcs[name]
	if fn == nil {
		return false
	}
	found := false
	for _, st := range fn.Decl.Body.List {
		inspectNoLit(st, func(n any) {
			if s, ok := n.(string); ok && s == "select" {
				found = true
			}
		})
	}
	return found
}

func reps(c *Ctx) int {
	if c.Thorough() {
		return 8
	}
	return 4
}

func checkC06(c *Ctx, k KCase) *Verdict {
	v := &Verdict{Features: caseFeatures(k.Spec)}
	o := runExecY(c, k, v, false, true, func(ir *injRun, k KCase, b *Built) []*Plan {
		ps := faultPlans(ir, k, reps(c))
		if th, _ := threadsOf(b, ir.name); th >= 2 {
			// the same faults at statement granularity (yield-instrumented emitted code)
			ps = append(ps, faultYieldPlans(ir, k, b, c.Thorough())...)
			v.Features["yield-run"] = true
		}
		return ps
	})
	if o == nil {
		return v
	}
	defer o.b.Close()
	if res := c06Oracle(c, o, v); res != nil {
		return res
	}
	v.Sample = describeCase(o.b)
	return v
}

// faultYieldPlans: every needed fallible provider failing, with the threads interleaved at
// statement granularity (FIFO/LIFO over yields, and starve(y) for the yield points).
func faultYieldPlans(ir *injRun, k KCase, b *Built, all bool) []*Plan {
	var ps []*Plan
	var ids []int
	for id, d := range b.Yields {
		if strings.HasPrefix(d, ir.name+" ") {
			ids = append(ids, id)
		}
	}
	sort.Ints(ids)
	for _, f := range fallibleNeeded(ir.r) {
		ps = append(ps, &Plan{Policy: "fifo", Fail: []int{f}, CancelAt: -2, Yields: true, Repeat: 2})
		ps = append(ps, &Plan{Policy: "lifo", Fail: []int{f}, CancelAt: -2, Yields: true, Repeat: 2})
		for i, id := range ids {
			if all || i%3 == int(k.Salt)%3 {
				ps = append(ps, &Plan{Policy: "starve", Starve: 200000 + id, Fail: []int{f}, CancelAt: -2, Yields: true, Repeat: 1})
			}
		}
	}
	return ps
}

func c06Oracle(c *Ctx, o *execOutcome, v *Verdict) *Verdict {
	for _, ex := range o.execs {
		ir := o.runs[ex.Inj]
		p := o.plans[ex.Plan]
		failed := failedIn(ex)
		th, _ := threadsOf(o.b, ex.Inj)
		v.Features["threads>=2"] = v.Features["threads>=2"] || th >= 2
		if len(failed) >= 2 || th >= 2 && len(failed) >= 1 {
			v.NonTrivial = true
		}
		v.Features["main-ctx-wait"] = v.Features["main-ctx-wait"] || mainThreadHasCtxWait(o.b, ex.Inj)
		if ex.Crashed || ex.Panic != "" {
			return o.failf(v, ex, "crash", "process died / panic", "injector crashed when provider(s) %v failed: %s", p.Fail, ex.Panic)
		}
		if ex.Deadlock || !ex.Returned {
			site := "?"
			if len(ex.Blocked) > 0 {
				site = stateOf(ex.Blocked[0]) + ": " + bandLineText(o.b, ex.Inj, ex.Blocked[0])
			}
			return o.failf(v, ex, "no-termination", site, "injector does not terminate after provider(s) %v failed", keysInt(failed))
		}
		if len(failed) == 0 {
			continue // nothing failed in this schedule
		}
		if !ex.HasErr {
			return o.failf(v, ex, "no-error-result", "signature", "a needed provider can fail but the injector has no error result")
		}
		if ex.ErrNil {
			return o.failf(v, ex, "error-swallowed", "nil error", "provider(s) %v returned an error but the injector returned nil", keysInt(failed))
		}
		if ex.ErrKind != "provider" || !failed[ex.ErrProv] {
			site := "ctx.Err() substituted"
			if mainThreadHasCtxWait(o.b, ex.Inj) {
				site = "ctx.Err() substituted; main thread waits with select on ctx.Done()"
			}
			if ex.ErrKind == "provider" {
				site = "error of a provider that did not fail"
			}
			o.failf(v, ex, "error-substituted:"+ex.ErrKind, site, "provider(s) %v failed but the injector returned %q (%s), which no invoked provider returned; the caller's context was not cancelled", keysInt(failed), ex.ErrText, ex.ErrKind)
			if c.absorbKnown(v) {
				continue
			}
			return v
		}
		// no downstream provider entered
		for f := range failed {
			down := ir.r.Downstream(f)
			for _, e := range ex.Events {
				if (e.K == "enter" || e.K == "val") && down[e.P] {
					return o.failf(v, ex, "downstream-invoked", "downstream", "provider %d depends on the failed provider %d but was invoked", e.P, f)
				}
			}
		}
	}
	return nil
}

func keysInt(m map[int]bool) []int {
	var out []int
	for k := range m {
		out = append(out, k)
	}
	sort.Ints(out)
	return out
}

func genC06(rt *rapid.T, c *Ctx) KCase {
	o := execOpts(c, spec.Opts{MinProv: 3, MaxProv: 10, MaxInjectors: 2, MaxFiles: 1, AsyncMode: rapid.SampledFrom([]string{"some", "some", "all", "none"}).Draw(rt, "asyncmode"), ErrBias: true})
	cs := spec.Gen(rt, o)
	k := KCase{Spec: cs, Salt: uint32(rapid.IntRange(1, 1<<16).Draw(rt, "salt"))}
	for i := 0; i < 3; i++ {
		k.Plans = append(k.Plans, &Plan{Policy: "choices", Choices: rapid.SliceOfN(rapid.IntRange(0, 6), 0, 14).Draw(rt, "choices")})
	}
	return k
}

func TestC06(t *testing.T)        { runProperty(t, "C06", genC06, checkC06) }
func TestReplayC06(t *testing.T)  { runReplay(t, "C06", checkC06) }
func TestWitnessC06(t *testing.T) { runWitnesses(t, "C06", checkC06, nil) }

// ---- C07

func checkC07(c *Ctx, k KCase) *Verdict {
	v := &Verdict{Features: caseFeatures(k.Spec)}
	o := runExecY(c, k, v, false, true, func(ir *injRun, k KCase, b *Built) []*Plan {
		if !ir.r.HasAsync {
			return nil
		}
		ps := cancelPlans(ir, k, reps(c))
		if th, _ := threadsOf(b, ir.name); th >= 2 {
			// cancellation at statement granularity: after every release of the yield-instrumented code
			n := len(loggedNeeded(ir.r))
			for _, d := range b.Yields {
				if strings.HasPrefix(d, ir.name+" ") {
					n++
				}
			}
			for at := 0; at < n; at++ {
				ps = append(ps, &Plan{Policy: "fifo", CancelAt: at, Yields: true, Repeat: 2})
				if c.Thorough() || at%2 == 0 {
					ps = append(ps, &Plan{Policy: "lifo", CancelAt: at, Yields: true, Repeat: 2})
				}
			}
			v.Features["yield-run"] = true
		}
		return ps
	})
	if o == nil {
		return v
	}
	defer o.b.Close()
	if res := c07Oracle(c, o, v); res != nil {
		return res
	}
	v.Sample = describeCase(o.b)
	return v
}

func c07Oracle(c *Ctx, o *execOutcome, v *Verdict) *Verdict {
	for _, ex := range o.execs {
		ir := o.runs[ex.Inj]
		v.Features["no-error-result"] = v.Features["no-error-result"] || !ex.HasErr
		v.Features["error-result"] = v.Features["error-result"] || ex.HasErr
		if ex.Cancelled && ex.CancelCtx != "" {
			var g, bl int
			fmt.Sscanf(ex.CancelCtx, "gated=%d blockedThreads=%d", &g, &bl)
			if g >= 1 && bl >= 1 {
				v.NonTrivial = true
				v.Features["cancel-while-waiting"] = true
			}
		}
		feat := map[string]bool{}
		for f, on := range v.Features {
			feat[f] = on
		}
		feat["inj-no-error-result"] = !ex.HasErr
		feat["inj-error-result"] = ex.HasErr
		if ex.Crashed || ex.Panic != "" {
			return o.failf(v, ex, "crash", "process died / panic", "injector crashed under cancellation: %s", ex.Panic)
		}
		if ex.Deadlock || !ex.Returned {
			site := "?"
			mainSite := ""
			for _, s := range ex.Blocked {
				txt := bandLineText(o.b, ex.Inj, s)
				if mainSite == "" {
					mainSite = stateOf(s) + ": " + txt
				}
			}
			if mainSite != "" {
				site = mainSite
			}
			kind := "hang-on-cancel"
			if !ex.HasErr {
				kind = "hang-on-cancel:no-error-result"
			}
			o.failf(v, ex, kind, site, "context cancelled (%s) and every provider returned, but the injector never returns", ex.CancelCtx)
			if c.absorbKnown(v) {
				continue
			}
			return v
		}
		if ex.ErrNil || !ex.HasErr {
			if ex.Result != ir.ref.Value {
				kind := "partial-result"
				if !ex.HasErr {
					kind = "partial-result:no-error-result"
				}
				site := "result computed on the main thread"
				if fn := o.b.An.Funcs[ex.Inj]; fn != nil && resultAssignedInGoroutine(fn.Decl) {
					site = "result computed in a goroutine; eg.Wait() error ignored"
				}
				o.failf(v, ex, kind, site, "injector reported no error but returned value hash %d instead of the completely constructed %d", ex.Result, ir.ref.Value)
				if c.absorbKnown(v) {
					continue
				}
				return v
			}
		}
	}
	return nil
}

func TestC07(t *testing.T)        { runProperty(t, "C07", genExec("C07", 3, 9, "", false), checkC07) }
func TestReplayC07(t *testing.T)  { runReplay(t, "C07", checkC07) }
func TestWitnessC07(t *testing.T) { runWitnesses(t, "C07", checkC07, nil) }

// ---- C08

func checkC08(c *Ctx, k KCase) *Verdict {
	v := &Verdict{Features: caseFeatures(k.Spec)}
	o := runExecY(c, k, v, false, true, func(ir *injRun, k KCase, b *Built) []*Plan {
		if !ir.r.HasAsync {
			return nil
		}
		r := reps(c) / 2
		ps := faultPlans(ir, k, r)
		ps = append(ps, cancelPlans(ir, k, r)...)
		ps = append(ps, &Plan{Policy: "fifo", CancelAt: -2}, &Plan{Policy: "lifo", CancelAt: -2})
		if th, _ := threadsOf(b, ir.name); th >= 2 {
			ps = append(ps, faultYieldPlans(ir, k, b, c.Thorough())...)
			ps = append(ps, yieldPlans(ir, k, b)...)
			v.Features["yield-run"] = true
		}
		return ps
	})
	if o == nil {
		return v
	}
	defer o.b.Close()
	if res := c08Oracle(c, o, v); res != nil {
		return res
	}
	v.Sample = describeCase(o.b)
	return v
}

func c08Oracle(c *Ctx, o *execOutcome, v *Verdict) *Verdict {
	for _, ex := range o.execs {
		if ex.Crashed || ex.Panic != "" || ex.Deadlock || !ex.Returned {
			c.Rep.Discard("no-return(C03/C06/C07)")
			continue
		}
		early := !ex.ErrNil && ex.HasErr
		if early && (len(ex.Gated) > 0 || len(ex.Alive) > 0) {
			v.NonTrivial = true
			v.Features["early-return-with-live-threads"] = true
		}
		if len(ex.Blocked) > 0 || ex.Leaked {
			site := "?"
			if len(ex.Blocked) > 0 {
				site = stateOf(ex.Blocked[0]) + ": " + bandLineText(o.b, ex.Inj, ex.Blocked[0])
			}
			kind := "goroutine-leak"
			switch {
			case ex.ErrNil || !ex.HasErr:
				kind += ":after-success"
			case ex.ErrKind == "provider":
				kind += ":after-provider-error"
			default:
				kind += ":after-" + ex.ErrKind
			}
			o.failf(v, ex, kind, site, "after the injector returned (%s) and every provider was released, goroutines it started remain blocked forever: %v", ex.ErrKind, ex.Blocked)
			if c.absorbKnown(v) {
				continue
			}
			return v
		}
	}
	return nil
}

func TestC08(t *testing.T)        { runProperty(t, "C08", genC06, checkC08) }
func TestReplayC08(t *testing.T)  { runReplay(t, "C08", checkC08) }
func TestWitnessC08(t *testing.T) { runWitnesses(t, "C08", checkC08, nil) }
