package props

import (
	_ "embed"

	"fmt"
	"go/ast"
	"go/types"
	"os"
	"path/filepath"
	"regexp"
	"strconv"
	"strings"
	"testing"
	"time"

	"pgregory.net/rapid"

	"verifharness/pipe"
	"verifharness/spec"
)

// C12Case is either an end-to-end declaration (Spec) or an allocator history (History).
type C12Case struct {
	Spec    *spec.Case `json:",omitempty"`
	PerFile bool
	History string `json:",omitempty"`
}

var goWords = map[string]bool{}

func init() {
	for _, w := range []string{"break", "default", "func", "interface", "select", "case", "defer", "go", "map", "struct", "chan", "else", "goto", "package", "switch",
		"const", "fallthrough", "if", "range", "type", "continue", "for", "import", "return", "var",
		"any", "bool", "byte", "comparable", "complex64", "complex128", "error", "float32", "float64", "int", "int8", "int16", "int32", "int64", "rune", "string",
		"uint", "uint8", "uint16", "uint32", "uint64", "uintptr", "true", "false", "iota", "nil", "append", "cap", "clear", "close", "complex", "copy", "delete", "imag", "len",
		"make", "max", "min", "new", "panic", "print", "println", "real", "recover"} {
		goWords[w] = true
	}
}

func genC12(rt *rapid.T, c *Ctx) C12Case {
	o := spec.Opts{MinProv: 2, MaxProv: 9, MaxInjectors: 4, MaxFiles: 3, Adversarial: true}
	o.Allow = spec.AllowAll()
	for _, e := range c.KF.Entries {
		if (e.Property == "C12" || e.Property == "C04") && e.Status == "open" {
			for _, t := range e.Trigger {
				if strings.HasPrefix(t, "gate:") {
					delete(o.Allow, strings.TrimPrefix(t, "gate:"))
				}
			}
		}
	}
	o.OnExclude = func(f string) { c.Rep.Exclude(f) }
	return C12Case{Spec: spec.Gen(rt, o), PerFile: rapid.Bool().Draw(rt, "perfile")}
}

// hard-coded identifiers the generator emits without asking the allocator; they live in
// nested scopes (if / for / func literal) except eg, which is function-level.
var hardCoded = map[string]bool{"eg": true, "ch": true, "zero": true, "err": true}

func checkC12(c *Ctx, k C12Case) *Verdict {
	if k.Spec == nil {
		return checkC12History(c, k)
	}
	v := &Verdict{Features: caseFeatures(k.Spec)}
	sr := runStatic(c, k.Spec, k.PerFile)
	if sr.B != nil {
		defer sr.B.Close()
	}
	if sr.Discard != "" {
		v.Discard, v.Detail = sr.Discard, sr.Detail
		return v
	}
	if sr.Exit != 0 {
		v.Discard, v.Detail = "cli-rejected(C09)", tail(sr.Stderr, 600)
		return v
	}
	b := sr.B
	v.Evals = 1
	if sr.Unparsable != "" {
		v.Kind, v.Site = "reserved-word", firstLine(sr.Unparsable)
		v.Fail = "an emitted file does not parse (a generated identifier is a keyword?): " + sr.Unparsable
		for n := range b.Inj {
			v.Fail += "\n" + readBand(b, n)
			break
		}
		return v
	}
	an := b.An
	// package-level names declared by the user (not by emitted files)
	userNames := map[string]bool{}
	if an.Pkg != nil {
		for _, n := range an.Pkg.Scope().Names() {
			obj := an.Pkg.Scope().Lookup(n)
			if !strings.HasSuffix(an.Fset.Position(obj.Pos()).Filename, "_band.go") {
				userNames[n] = true
			}
		}
	}
	fail := func(kind, site, f string, a ...any) *Verdict {
		v.Kind, v.Site = kind, site
		v.Fail = fmt.Sprintf(f, a...)
		for n := range b.Inj {
			v.Fail += "\n" + readBand(b, n)
			break
		}
		return v
	}
	// redeclarations are reported by the type checker
	for _, e := range an.BandErrors() {
		cls := errClass(e.Msg)
		if cls == "redeclared" || strings.Contains(e.Msg, "already declared") {
			return fail("same-scope-duplicate", bandLine(b, e), "two generated entities share an identifier in one scope: %s  // %s", e.String(), bandLine(b, e))
		}
	}
	baseSeen := map[string]int{}
	for _, name := range an.Order {
		fn := an.Funcs[name]
		seen := map[*types.Scope]map[string]bool{}
		for _, d := range an.Decls(fn) {
			if seen[d.Scope] == nil {
				seen[d.Scope] = map[string]bool{}
			}
			if seen[d.Scope][d.Name] {
				return fail("same-scope-duplicate", d.Name, "identifier %s declared twice in one scope of %s", d.Name, name)
			}
			seen[d.Scope][d.Name] = true
			// identifiers inside copied provider literals are the user's own
			if insideProviderExpr(fn.Decl, d.Line, an) {
				continue
			}
			if goWords[d.Name] {
				return fail("reserved-word", d.Name, "generated identifier %s in %s is a keyword / predeclared identifier", d.Name, name)
			}
			if userNames[d.Name] && !hardCoded[d.Name] {
				return fail("shadows-user-name", d.Name, "generated identifier %s in %s is already declared at package level in the user's package", d.Name, name)
			}
			baseSeen[strings.TrimRight(d.Name, "0123456789")]++
		}
		// copied provider expressions must not be captured by generated locals
		if msg := capturedIdent(fn.Decl, an); msg != "" {
			return fail("captured-identifier", msg, "an identifier inside a copied provider expression in %s now resolves to a generated local: %s", name, msg)
		}
	}
	for _, n := range baseSeen {
		if n >= 2 {
			v.NonTrivial = true
		}
	}
	v.Sample = describeCase(b)
	return v
}

// insideProviderExpr reports whether source line `line` lies inside a function literal
// that is part of a copied provider expression (argument of kessoku.Provide etc.).
func insideProviderExpr(fd *ast.FuncDecl, line int, a *bandAnalysis) bool {
	found := false
	ast.Inspect(fd, func(n ast.Node) bool {
		sel, ok := n.(*ast.SelectorExpr)
		if !ok || sel.Sel.Name != "Fn" {
			return true
		}
		s, e := a.Fset.Position(sel.X.Pos()).Line, a.Fset.Position(sel.X.End()).Line
		if hasFuncLit(sel.X) && line >= s && line <= e {
			found = true
		}
		return true
	})
	return found
}

func hasFuncLit(e ast.Expr) bool {
	f := false
	ast.Inspect(e, func(n ast.Node) bool {
		if _, ok := n.(*ast.FuncLit); ok {
			f = true
		}
		return !f
	})
	return f
}

// capturedIdent looks, inside every copied provider expression X of X.Fn(), for an
// identifier that resolves to an object declared in the generated function outside X.
func capturedIdent(fd *ast.FuncDecl, a *bandAnalysis) string {
	msg := ""
	ast.Inspect(fd, func(n ast.Node) bool {
		sel, ok := n.(*ast.SelectorExpr)
		if !ok || sel.Sel.Name != "Fn" || msg != "" {
			return msg == ""
		}
		x := sel.X
		ast.Inspect(x, func(m ast.Node) bool {
			id, ok := m.(*ast.Ident)
			if !ok {
				return true
			}
			obj := a.Info.Uses[id]
			if obj == nil || obj.Pkg() == nil || obj.Parent() == nil {
				return true
			}
			if obj.Parent() == obj.Pkg().Scope() || obj.Parent() == types.Universe {
				return true
			}
			// a local object: fine if declared inside x itself
			if obj.Pos() >= x.Pos() && obj.Pos() <= x.End() {
				return true
			}
			if obj.Pos() >= fd.Pos() && obj.Pos() <= fd.End() {
				msg = fmt.Sprintf("%s at line %d resolves to the local declared at line %d", id.Name, a.Fset.Position(id.Pos()).Line, a.Fset.Position(obj.Pos()).Line)
				return false
			}
			return true
		})
		return false
	})
	return msg
}

// ---------------------------------------------------------------- allocator state machine

//go:embed overlay_varpool.go.txt
var overlaySrc []byte

var reHist = regexp.MustCompile(`history \[(.*)\]`)

// smBuild prepares a scratch copy of the snapshot with the overlay and builds the test binary.
func smBuild(c *Ctx) (string, string, error) {
	dir := c.Dir("sm-")
	src := filepath.Join(dir, "src")
	r := pipe.Run(pipe.Cmd{Args: []string{"rsync", "-a", c.Snap.Src + "/", src + "/"}})
	if r.Exit != 0 {
		return "", dir, fmt.Errorf("rsync: %s", r.Stderr)
	}
	if err := os.WriteFile(filepath.Join(src, "internal", "kessoku", "zz_verif_varpool_test.go"), overlaySrc, 0o644); err != nil {
		return "", dir, err
	}
	r = pipe.Run(pipe.Cmd{Dir: src, Env: c.goEnv(), Args: []string{"go", "mod", "edit", "-require", "pgregory.net/rapid@v1.3.0"}})
	if r.Exit != 0 {
		return "", dir, fmt.Errorf("go mod edit: %s", r.Stderr)
	}
	// go.sum lines for rapid
	sum := "pgregory.net/rapid v1.3.0 h1:dummy\n"
	if b, err := os.ReadFile(filepath.Join(c.VerifDir, "harness", "go.sum")); err == nil {
		sum = ""
		for _, l := range strings.Split(string(b), "\n") {
			if strings.HasPrefix(l, "pgregory.net/rapid ") {
				sum += l + "\n"
			}
		}
	}
	f, err := os.OpenFile(filepath.Join(src, "go.sum"), os.O_APPEND|os.O_WRONLY, 0o644)
	if err == nil {
		_, _ = f.WriteString(sum)
		f.Close()
	}
	bin := filepath.Join(dir, "sm.test")
	r = pipe.Run(pipe.Cmd{Dir: src, Env: c.goEnv(), Args: []string{"go", "test", "-c", "-vet=off", "-o", bin, "./internal/kessoku"}, Timeout: 10 * time.Minute})
	if r.Exit != 0 {
		return "", dir, fmt.Errorf("build allocator test: %s", tail(r.Stderr+r.Stdout, 1500))
	}
	return bin, dir, nil
}

func checkC12History(c *Ctx, k C12Case) *Verdict {
	v := &Verdict{Features: map[string]bool{"allocator-history": true}, Evals: 1}
	bin, dir, err := smBuild(c)
	defer os.RemoveAll(dir)
	if err != nil {
		v.Discard, v.Detail = "sm-build-error", err.Error()
		return v
	}
	r := pipe.Run(pipe.Cmd{Dir: dir, Env: c.goEnv("VERIF_SM_HISTORY=" + k.History), Args: []string{bin, "-test.run", "^TestVerifVarPoolReplay$", "-test.v"}})
	if r.Exit != 0 {
		v.Kind, v.Site = "allocator-duplicate", "VarPool"
		if i := strings.Index(r.Stdout, "VERIF-SM-VIOLATION"); i >= 0 {
			v.Fail = strings.TrimSpace(r.Stdout[i:])
			if j := strings.IndexByte(v.Fail, '\n'); j >= 0 {
				v.Fail = v.Fail[:j]
			}
		} else {
			v.Fail = tail(r.Stdout+r.Stderr, 800)
		}
		v.Fail += "\nhistory: " + k.History
	}
	return v
}

func TestC12(t *testing.T)       { runProperty(t, "C12", genC12, checkC12) }
func TestReplayC12(t *testing.T) { runReplay(t, "C12", checkC12) }

func TestWitnessC12(t *testing.T) {
	runWitnesses(t, "C12", checkC12, func(c *Ctx) {
		bin, dir, err := smBuild(c)
		defer os.RemoveAll(dir)
		if err != nil {
			c.Rep.Inconclusive = "allocator state machine: " + err.Error()
			return
		}
		procs, checks := 4, 30000
		if c.Thorough() {
			procs, checks = 12, 400000
		}
		type res struct {
			out   pipe.Result
			stats string
		}
		ch := make(chan res, procs)
		for i := 0; i < procs; i++ {
			go func(i int) {
				st := filepath.Join(dir, fmt.Sprintf("stats%d", i))
				seed := c.Rep.Seed*31 + uint64(i) + 1
				r := pipe.Run(pipe.Cmd{Dir: dir, Env: c.goEnv("VERIF_SM_STATS=" + st), Timeout: 20 * time.Minute,
					Args: []string{bin, "-test.run", "^TestVerifVarPoolSM$", "-test.timeout", "19m", "-rapid.checks", strconv.Itoa(checks), "-rapid.steps", "40", "-rapid.seed", strconv.FormatUint(seed, 10), "-rapid.nofailfile", "-rapid.shrinktime", "20s"}})
				b, _ := os.ReadFile(st)
				ch <- res{r, string(b)}
			}(i)
		}
		if c.Thorough() {
			// coverage-guided native fuzzing of the same property (cannot be seeded: a found input is
			// shrunk and replayed through the saved history)
			procs++
			go func() {
				fdir := filepath.Join(dir, "fuzz")
				_ = os.MkdirAll(fdir, 0o755)
				// a second binary with the fuzzer's coverage instrumentation
				fbin := filepath.Join(dir, "smfuzz.test")
				br := pipe.Run(pipe.Cmd{Dir: filepath.Join(dir, "src"), Env: c.goEnv(), Timeout: 15 * time.Minute,
					Args: []string{"go", "test", "-c", "-vet=off", "-fuzz", "FuzzVerifVarPool", "-o", fbin, "./internal/kessoku"}})
				if br.Exit != 0 {
					fbin = bin // fall back to fuzzing without coverage guidance
				}
				r := pipe.Run(pipe.Cmd{Dir: fdir, Env: c.goEnv(), Timeout: 10 * time.Minute,
					Args: []string{fbin, "-test.run", "^$", "-test.fuzz", "^FuzzVerifVarPool$", "-test.fuzztime", "120s", "-test.fuzzcachedir", filepath.Join(fdir, "cache"), "-test.parallel", "8"}})
				execs := ""
				for _, l := range strings.Split(r.Stderr+"\n"+r.Stdout, "\n") {
					if strings.Contains(l, "execs:") {
						execs = strings.TrimSpace(l)
					}
				}
				c.Rep.Extra["native_fuzz_last_status"] = execs
				r.Stdout += "\n" + r.Stderr // failure messages of the fuzzer may be on either stream
				ch <- res{r, ""}
			}()
		}
		for i := 0; i < procs; i++ {
			r := <-ch
			lines := strings.Split(r.stats, "\n")
			if len(lines) >= 2 {
				var cs, steps int
				fmt.Sscanf(lines[0], "%d %d", &cs, &steps)
				c.Rep.Eval(steps)
				c.Rep.Extra["allocator_sequences"] = asF(c.Rep.Extra["allocator_sequences"]) + float64(cs)
				for _, h := range strings.Fields(lines[1]) {
					c.Rep.NonTrivial("sm:" + h)
				}
				for _, s := range lines[2:] {
					if strings.TrimSpace(s) != "" {
						c.Rep.Sample(4, map[string]any{"allocator-history": s})
					}
				}
			}
			if r.out.Exit != 0 {
				hist := ""
				if m := reHist.FindStringSubmatch(r.out.Stdout); m != nil {
					hist = m[1]
				}
				if hist == "" {
					c.Rep.Inconclusive = "allocator state machine failed without a history: " + tail(r.out.Stdout+r.out.Stderr, 600)
					continue
				}
				// the last reported history is the shrunk one
				all := reHist.FindAllStringSubmatch(r.out.Stdout, -1)
				hist = all[len(all)-1][1]
				cs := C12Case{History: hist}
				v := checkC12History(c, cs)
				if v.Fail == "" {
					v.Fail, v.Kind, v.Site = "state machine reported: "+tail(r.out.Stdout, 600), "allocator-duplicate", "VarPool"
				}
				if msg := c.record(cs, v); msg != "" {
					return
				}
			}
		}
	})
}

func asF(v any) float64 {
	f, _ := v.(float64)
	return f
}
