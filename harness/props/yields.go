package props

import (
	"bytes"
	"fmt"
	"go/ast"
	"go/format"
	"go/parser"
	"go/printer"
	"go/token"
	"os"
	"strconv"
	"strings"
)

// instrumentYields rewrites every emitted file of the case: before each top-level statement
// of an injector's main thread and of each goroutine body a call vrtY.Yield(n) is inserted.
// The data flow of the emitted code is unchanged; the controller can now interleave threads
// between two statements of emitted code. Returns yield id -> description.
func (b *Built) instrumentYields() (map[int]string, error) {
	desc := map[int]string{}
	next := 1
	for _, f := range b.declFiles() {
		path := b.bandPath(f)
		src, err := os.ReadFile(path)
		if err != nil {
			return nil, err
		}
		fset := token.NewFileSet()
		af, err := parser.ParseFile(fset, path, src, parser.ParseComments)
		if err != nil {
			return nil, err
		}
		stmtText := func(s ast.Stmt) string {
			var buf bytes.Buffer
			_ = printer.Fprint(&buf, fset, s)
			t := buf.String()
			if i := strings.IndexByte(t, '\n'); i >= 0 {
				t = t[:i] + " …"
			}
			return t
		}
		yield := func(fn string, thread int, s ast.Stmt) ast.Stmt {
			id := next
			next++
			desc[id] = fmt.Sprintf("%s thread %d before `%s`", fn, thread, stmtText(s))
			return &ast.ExprStmt{X: &ast.CallExpr{
				Fun:  &ast.SelectorExpr{X: ast.NewIdent("vrtY"), Sel: ast.NewIdent("Yield")},
				Args: []ast.Expr{&ast.BasicLit{Kind: token.INT, Value: strconv.Itoa(id)}},
			}}
		}
		for _, d := range af.Decls {
			fd, ok := d.(*ast.FuncDecl)
			if !ok || fd.Body == nil || fd.Recv != nil {
				continue
			}
			thread := 0
			var out []ast.Stmt
			for _, st := range fd.Body.List {
				// goroutine bodies
				if es, ok := st.(*ast.ExprStmt); ok {
					if call, ok := es.X.(*ast.CallExpr); ok && isEg(call, "Go") && len(call.Args) == 1 {
						if lit, ok := call.Args[0].(*ast.FuncLit); ok {
							thread++
							var body []ast.Stmt
							for _, gs := range lit.Body.List {
								body = append(body, yield(fd.Name.Name, thread, gs), gs)
							}
							lit.Body.List = body
							out = append(out, st)
							continue
						}
					}
				}
				if _, isDecl := st.(*ast.DeclStmt); isDecl && len(out) == 0 {
					out = append(out, st) // leading var block
					continue
				}
				out = append(out, yield(fd.Name.Name, 0, st), st)
			}
			fd.Body.List = out
		}
		// import vrtY "vrt"
		spec := &ast.ImportSpec{Name: ast.NewIdent("vrtY"), Path: &ast.BasicLit{Kind: token.STRING, Value: `"vrt"`}}
		added := false
		for _, d := range af.Decls {
			if gd, ok := d.(*ast.GenDecl); ok && gd.Tok == token.IMPORT {
				gd.Specs = append(gd.Specs, spec)
				if !gd.Lparen.IsValid() {
					gd.Lparen = gd.Pos()
					gd.Rparen = gd.End()
				}
				added = true
				break
			}
		}
		if !added {
			af.Decls = append([]ast.Decl{&ast.GenDecl{Tok: token.IMPORT, Specs: []ast.Spec{spec}}}, af.Decls...)
		}
		var buf bytes.Buffer
		if err := format.Node(&buf, fset, af); err != nil {
			return nil, err
		}
		if b.bandOrig == nil {
			b.bandOrig = map[string]string{}
		}
		b.bandOrig[f] = string(src)
		if err := os.WriteFile(path, buf.Bytes(), 0o644); err != nil {
			return nil, err
		}
	}
	return desc, nil
}
