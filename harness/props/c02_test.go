package props

import (
	"fmt"
	"os"
	"path/filepath"
	"sort"
	"strings"
	"testing"

	"pgregory.net/rapid"

	"verifharness/spec"
)

// KCase is the replayable case of the generator-based properties.
type KCase struct {
	Spec  *spec.Case
	Plans []*Plan `json:",omitempty"` // drawn plan parameters (schedules, faults, cancellation)
	Salt  uint32
}

// features gated off because they trigger a known finding owned by another property.
// (names of spec features; see known_findings.json)
var gatedForExecution = []string{}

func execOpts(c *Ctx, o spec.Opts) spec.Opts {
	if o.Allow == nil {
		o.Allow = spec.AllowAll(gatedForExecution...)
	}
	o.OnExclude = func(f string) { c.Rep.Exclude(f) }
	return o
}

// pipelineResult is what the common pipeline hands to an oracle.
type pipelineResult struct {
	B       *Built
	Discard string // reason the case cannot be judged by an execution oracle
	Detail  string
}

// runPipeline materialises, generates, type-checks and builds the inner binary.
func runPipeline(c *Ctx, cs *spec.Case, race bool) (*pipelineResult, string) {
	return runPipelineY(c, cs, race, false)
}

func runPipelineY(c *Ctx, cs *spec.Case, race, yields bool) (*pipelineResult, string) {
	b, err := c.materialize(cs)
	if err != nil {
		return &pipelineResult{Discard: "materialize-error", Detail: err.Error()}, ""
	}
	pr := &pipelineResult{B: b}
	r := b.runCLI(b.declFiles()...)
	if r.Err != nil {
		pr.Discard, pr.Detail = "cli-run-error", fmt.Sprint(r.Err)
		return pr, ""
	}
	if r.Exit != 0 {
		pr.Discard, pr.Detail = "cli-rejected(C09)", tail(r.Stderr, 800)
		return pr, ""
	}
	if err := b.analyze(); err != nil {
		pr.Discard, pr.Detail = "analyze-error", err.Error()
		return pr, ""
	}
	if ue := b.An.UserErrors(); len(ue) > 0 {
		pr.Discard, pr.Detail = "band-compile-error(C04)", fmt.Sprint(ue)
		return pr, ""
	}
	if be := b.An.BandErrors(); len(be) > 0 {
		pr.Discard, pr.Detail = "band-compile-error(C04)", fmt.Sprint(be)
		return pr, ""
	}
	var names []string
	for n := range b.Inj {
		if _, ok := b.An.Funcs[n]; !ok {
			pr.Discard, pr.Detail = "injector-missing(C09)", n
			return pr, ""
		}
		names = append(names, n)
	}
	sort.Strings(names)
	if yields {
		// adapters are derived from the analysed (uninstrumented) signatures; instrument afterwards
		for _, n := range names {
			if _, err := b.adapter(n); err != nil {
				pr.Discard, pr.Detail = "inner-build-error", err.Error()
				return pr, ""
			}
		}
		y, err := b.instrumentYields()
		if err != nil {
			pr.Discard, pr.Detail = "yield-instrumentation-error", err.Error()
			return pr, ""
		}
		b.Yields = y
	}
	bin, br, err := b.buildInner(names, race)
	if err != nil {
		pr.Discard = "inner-build-error"
		pr.Detail = err.Error()
		if br != nil && strings.Contains(br.Stderr, "_band.go") {
			pr.Discard = "band-compile-error(C04)"
		}
		return pr, ""
	}
	return pr, bin
}

func callMultiset(evs []Event) map[string]int {
	m := map[string]int{}
	for _, e := range evs {
		switch e.K {
		case "enter":
			m[fmt.Sprintf("%d%v", e.P, e.Args)]++
		case "val":
			m[fmt.Sprintf("%d[]", e.P)]++
		}
	}
	return m
}

func expectedMultiset(calls []spec.Call) map[string]int {
	m := map[string]int{}
	for _, c := range calls {
		a := c.Args
		if a == nil {
			a = []uint32{}
		}
		m[fmt.Sprintf("%d%v", c.PID, a)]++
	}
	return m
}

func diffMultiset(got, want map[string]int) string {
	var d []string
	for k, n := range want {
		if got[k] != n {
			d = append(d, fmt.Sprintf("call %s: expected %d, observed %d", k, n, got[k]))
		}
	}
	for k, n := range got {
		if _, ok := want[k]; !ok {
			d = append(d, fmt.Sprintf("call %s: expected 0, observed %d", k, n))
		}
	}
	sort.Strings(d)
	return strings.Join(d, "; ")
}

// caseFeatures derives the feature set of a case (spec features + structural ones).
func caseFeatures(cs *spec.Case) map[string]bool {
	f := map[string]bool{}
	for _, x := range cs.Features {
		f[x] = true
	}
	return f
}

func describeCase(b *Built) map[string]any {
	out := map[string]any{}
	for i := range b.Case.Files {
		f := &b.Case.Files[i]
		if src, err := os.ReadFile(filepath.Join(b.L.AppDir, f.Name)); err == nil {
			out[f.Name] = string(src)
		}
	}
	var provs []string
	for i := range b.Case.Provs {
		p := &b.Case.Provs[i]
		var ps, rs []string
		for _, t := range p.Params {
			ps = append(ps, b.Case.Describe(t))
		}
		for _, t := range p.Results {
			rs = append(rs, b.Case.Describe(t))
		}
		e := ""
		if p.Err {
			e = ", error"
		}
		provs = append(provs, fmt.Sprintf("P%d %s(%s) (%s%s)", p.ID, p.Name, strings.Join(ps, ", "), strings.Join(rs, ", "), e))
	}
	out["providers"] = provs
	return out
}

// ---------------------------------------------------------------- C02

func genC02(rt *rapid.T, c *Ctx) KCase {
	o := execOpts(c, spec.Opts{MinProv: 1, MaxProv: 9, MaxInjectors: 3, MaxFiles: 2})
	cs := spec.Gen(rt, o)
	k := KCase{Spec: cs, Salt: uint32(rapid.IntRange(1, 1<<16).Draw(rt, "salt"))}
	// 3 drawn schedules shared by all injectors
	for i := 0; i < 3; i++ {
		k.Plans = append(k.Plans, &Plan{Policy: "choices", Choices: rapid.SliceOfN(rapid.IntRange(0, 5), 0, 12).Draw(rt, "choices")})
	}
	return k
}

func checkC02(c *Ctx, k KCase) *Verdict {
	v := &Verdict{Features: caseFeatures(k.Spec)}
	pr, bin := runPipeline(c, k.Spec, false)
	if pr.B != nil {
		defer pr.B.Close()
	}
	if pr.Discard != "" {
		v.Discard, v.Detail = pr.Discard, pr.Detail
		return v
	}
	b := pr.B
	var plans []*Plan
	type key struct {
		inj  string
		salt uint32
	}
	ref := map[int]*spec.EvalResult{}
	var names []string
	for n := range b.Inj {
		names = append(names, n)
	}
	sort.Strings(names)
	for _, n := range names {
		r := b.Res[n]
		for s := uint32(0); s < 2; s++ {
			js, m := argHashes(r, k.Salt+s)
			er := r.Eval(m, nil)
			base := []*Plan{{Policy: "fifo"}, {Policy: "lifo"}}
			base = append(base, k.Plans...)
			if s == 1 {
				base = base[:1]
			}
			for _, bp := range base {
				p := &Plan{Inj: n, Mode: "ctl", Policy: bp.Policy, Choices: bp.Choices, CancelAt: -2, Args: js, Repeat: 1, Async: asyncPIDs(r)}
				ref[len(plans)] = er
				plans = append(plans, p)
			}
		}
		// non-triviality: >=3 needed units and a non-plain construct
		if len(r.Needed) >= 3 {
			nt := b.Case.SetDepth(r.Inj.Elems) >= 2 || len(r.Units) > len(r.Needed)
			for _, u := range r.Needed {
				if u.Kind != "prov" || len(u.Bind) > 0 || len(u.Prov.Results) > 1 {
					nt = true
				}
			}
			if nt {
				v.NonTrivial = true
			}
		}
	}
	execs, err := b.execPlans(bin, plans, false)
	if err != nil {
		v.Discard = "inner-run-error"
		c.Rep.Sample(2, map[string]any{"inner-run-error": err.Error()})
		return v
	}
	v.Evals = len(execs)
	for _, ex := range execs {
		er := ref[ex.Plan]
		r := b.Res[ex.Inj]
		site := fmt.Sprintf("%s plan=%d(%s)", ex.Inj, ex.Plan, plans[ex.Plan].Policy)
		fail := func(kind, f string, a ...any) *Verdict {
			v.Kind, v.Site = kind, site
			v.Fail = fmt.Sprintf(f, a...) + "\nexpected signature: " + r.Signature().String(b.Case) + "\n" + readBand(b, ex.Inj)
			return v
		}
		if ex.Crashed || ex.Panic != "" || ex.Deadlock || !ex.Returned {
			// termination is C03's business; no value to compare
			c.Rep.Discard("no-return(C03)")
			continue
		}
		if !ex.ErrNil {
			return fail("spurious-error", "fault-free run returned error %q (%s)", ex.ErrText, ex.ErrKind)
		}
		if ex.Result != er.Value {
			return fail("value", "injector returned value hash %d, sequential evaluation gives %d; events: %v", ex.Result, er.Value, ex.Events)
		}
		if d := diffMultiset(callMultiset(ex.Events), expectedMultiset(er.Calls)); d != "" {
			return fail("calls", "provider invocations differ from the sequential evaluation: %s", d)
		}
	}
	v.Sample = describeCase(b)
	return v
}

func readBand(b *Built, inj string) string {
	f := b.InjFile[inj]
	if f == "" {
		return ""
	}
	src, err := os.ReadFile(b.bandPath(f))
	if err != nil {
		return ""
	}
	if o, ok := b.bandOrig[f]; ok {
		src = []byte(o)
	}
	decl, _ := os.ReadFile(filepath.Join(b.L.AppDir, f))
	return "--- " + f + "\n" + string(decl) + "\n--- " + bandName(f) + "\n" + string(src)
}

func TestC02(t *testing.T)        { runProperty(t, "C02", genC02, checkC02) }
func TestReplayC02(t *testing.T)  { runReplay(t, "C02", checkC02) }
func TestWitnessC02(t *testing.T) { runWitnesses(t, "C02", checkC02, nil) }
