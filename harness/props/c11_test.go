package props

import (
	"bytes"
	"fmt"
	"os"
	"path/filepath"
	"sort"
	"strings"
	"testing"
	"time"

	"pgregory.net/rapid"

	"verifharness/mat"
	"verifharness/pipe"
	"verifharness/spec"
)

// C11Case: a declaration plus a history of operations on the working directory.
type C11Op struct {
	Op   string // gen | truncate | garbage | foreign | delete | touch | empty | edit-async | edit-rename | edit-order
	File int    // index into declaration files
	Arg  int
	Procs int
}

type C11Case struct {
	Spec *spec.Case
	Ops  []C11Op
}

func genC11(rt *rapid.T, c *Ctx) C11Case {
	o := spec.Opts{MinProv: 1, MaxProv: 8, MaxInjectors: 3, MaxFiles: 2, Adversarial: true}
	o.Allow = spec.AllowAll()
	for _, e := range c.KF.Entries {
		if e.Property == "C11" && e.Status == "open" {
			for _, t := range e.Trigger {
				if strings.HasPrefix(t, "gate:") {
					delete(o.Allow, strings.TrimPrefix(t, "gate:"))
				}
			}
		}
	}
	o.OnExclude = func(f string) { c.Rep.Exclude(f) }
	cs := spec.Gen(rt, o)
	k := C11Case{Spec: cs}
	n := rapid.IntRange(2, 7).Draw(rt, "nops")
	ops := []string{"gen", "gen", "gen", "truncate", "garbage", "foreign", "delete", "touch", "empty", "edit-async", "edit-rename", "edit-order"}
	for i := 0; i < n; i++ {
		k.Ops = append(k.Ops, C11Op{
			Op:    rapid.SampledFrom(ops).Draw(rt, "op"),
			File:  rapid.IntRange(0, 3).Draw(rt, "file"),
			Arg:   rapid.IntRange(0, 99).Draw(rt, "arg"),
			Procs: rapid.IntRange(1, 16).Draw(rt, "procs"),
		})
	}
	k.Ops = append(k.Ops, C11Op{Op: "gen", Procs: rapid.IntRange(1, 16).Draw(rt, "procs-last")})
	return k
}

// cleanRoom materialises the spec in a fresh directory, runs the CLI once and returns the emitted files.
func cleanRoom(c *Ctx, cs *spec.Case) (map[string][]byte, int, string, error) {
	b, err := c.materialize(cs)
	if err != nil {
		return nil, 0, "", err
	}
	defer b.Close()
	r := b.runCLI(b.declFiles()...)
	if r.Err != nil {
		return nil, 0, "", fmt.Errorf("cli: %v", r.Err)
	}
	out := map[string][]byte{}
	for _, f := range b.declFiles() {
		if src, err := os.ReadFile(b.bandPath(f)); err == nil {
			out[bandName(f)] = src
		}
	}
	return out, r.Exit, r.Stderr, nil
}

func checkC11(c *Ctx, k C11Case) *Verdict {
	v := &Verdict{Features: caseFeatures(k.Spec)}
	cs := cloneCase(k.Spec)
	b, err := c.materialize(cs)
	if err != nil {
		v.Discard, v.Detail = "materialize-error", err.Error()
		return v
	}
	defer b.Close()
	var clean map[string][]byte
	cleanExit := 0
	refresh := func() error {
		var err error
		clean, cleanExit, _, err = cleanRoom(c, cs)
		return err
	}
	if err := refresh(); err != nil {
		v.Discard, v.Detail = "cleanroom-error", err.Error()
		return v
	}
	if cleanExit != 0 {
		v.Discard = "cli-rejected(C09)"
		return v
	}
	var trace []string
	dirty := false // a stale / damaged / foreign output file is present
	procsSeen := map[int]bool{}
	gens := 0
	files := b.declFiles()
	rewrite := func() error {
		// re-render declaration files only; output files stay as they are
		for i := range cs.Files {
			f := &cs.Files[i]
			tmp, err := c.materialize(cs)
			if err != nil {
				return err
			}
			src, err := os.ReadFile(filepath.Join(tmp.L.AppDir, f.Name))
			tmp.Close()
			if err != nil {
				return err
			}
			if err := os.WriteFile(filepath.Join(b.L.AppDir, f.Name), src, 0o644); err != nil {
				return err
			}
			_ = i
			break
		}
		return nil
	}
	_ = rewrite
	for oi, op := range k.Ops {
		if len(files) == 0 {
			break
		}
		f := files[op.File%len(files)]
		bp := b.bandPath(f)
		switch op.Op {
		case "gen":
			env := b.ctx.goEnv(fmt.Sprintf("GOMAXPROCS=%d", op.Procs))
			args := files
			if op.Arg%4 == 3 {
				// `kessoku *.go`: every Go file of the directory, earlier outputs included
				args = nil
				ents, _ := os.ReadDir(b.L.AppDir)
				for _, e := range ents {
					if strings.HasSuffix(e.Name(), ".go") && !strings.HasSuffix(e.Name(), "_test.go") && e.Name() != "hidden_helpers.go" {
						if src, err := os.ReadFile(filepath.Join(b.L.AppDir, e.Name())); err == nil && len(src) > 0 && !strings.HasPrefix(string(src), "this is not go") {
							args = append(args, e.Name())
						}
					}
				}
				v.Features["invoke:all-go-files"] = true
			}
			r := pipe.Run(pipe.Cmd{Dir: b.L.AppDir, Env: env, Args: append([]string{c.Snap.CLI}, args...), Timeout: 2 * time.Minute})
			v.Evals++
			gens++
			procsSeen[op.Procs] = true
			trace = append(trace, fmt.Sprintf("gen(GOMAXPROCS=%d)->%d", op.Procs, r.Exit))
			if r.Err != nil {
				v.Discard = "cli-run-error"
				return v
			}
			if dirty || len(procsSeen) >= 2 {
				v.NonTrivial = true
			}
			if r.Exit != 0 {
				v.Kind, v.Site = "nondeterministic-exit", "exit status"
				v.Fail = fmt.Sprintf("clean-room run exits 0 but run %d in the working directory exits %d\nhistory: %v\nstderr: %s", oi, r.Exit, trace, tail(r.Stderr, 1200))
				return v
			}
			for _, df := range files {
				got, err := os.ReadFile(b.bandPath(df))
				want := clean[bandName(df)]
				if err != nil {
					v.Kind, v.Site = "missing-output", bandName(df)
					v.Fail = fmt.Sprintf("%s missing after generation; history %v", bandName(df), trace)
					return v
				}
				if !bytes.Equal(got, want) {
					v.Kind = "output-differs"
					v.Site = firstDiff(string(want), string(got))
					v.Fail = fmt.Sprintf("output of %s differs from the clean-room output of the same sources after history %v\nfirst difference: %s\n--- clean room\n%s\n--- this run\n%s\n--- declaration\n%s", bandName(df), trace, v.Site, want, got, readDecl(b, df))
					return v
				}
			}
			dirty = false
		case "truncate":
			if src, err := os.ReadFile(bp); err == nil && len(src) > 0 {
				_ = os.WriteFile(bp, src[:len(src)*op.Arg/100], 0o644)
				dirty = true
				trace = append(trace, fmt.Sprintf("truncate(%s,%d%%)", bandName(f), op.Arg))
			}
		case "garbage":
			_ = os.WriteFile(bp, []byte("this is not go {{{\n"), 0o644)
			dirty = true
			trace = append(trace, "garbage("+bandName(f)+")")
		case "empty":
			_ = os.WriteFile(bp, nil, 0o644)
			dirty = true
			trace = append(trace, "empty("+bandName(f)+")")
		case "foreign":
			// a valid Go file of the same package with other declarations, including names that look generated
			content := "// Code generated by kessoku. DO NOT EDIT.\n\npackage " + mat.UserPkg + "\n\nfunc staleInit" + strings.TrimSuffix(f, ".go") + "() int { return 0 }\n\nvar num0, str1, val2 = 1, \"\", 2\n"
			_ = os.WriteFile(bp, []byte(content), 0o644)
			dirty = true
			trace = append(trace, "foreign("+bandName(f)+")")
		case "delete":
			if os.Remove(bp) == nil {
				trace = append(trace, "delete("+bandName(f)+")")
			}
		case "touch":
			old := time.Now().Add(-time.Duration(op.Arg) * time.Hour)
			_ = os.Chtimes(bp, old, old)
			trace = append(trace, "touch("+bandName(f)+")")
		case "edit-async", "edit-rename", "edit-order":
			if !editSpec(cs, op) {
				continue
			}
			nb, err := c.materialize(cs)
			if err != nil {
				continue
			}
			// copy the re-rendered declaration files over the working directory, keep output files
			for _, df := range nb.declFiles() {
				if src, err := os.ReadFile(filepath.Join(nb.L.AppDir, df)); err == nil {
					_ = os.WriteFile(filepath.Join(b.L.AppDir, df), src, 0o644)
				}
			}
			nb.Close()
			if err := refresh(); err != nil || cleanExit != 0 {
				v.Discard = "edit-made-case-invalid"
				return v
			}
			dirty = true // the output files are now stale with respect to the sources
			trace = append(trace, op.Op)
		}
	}
	v.Features["gens>=2"] = gens >= 2
	v.Sample = map[string]any{"history": trace}
	return v
}

func readDecl(b *Built, f string) string {
	src, _ := os.ReadFile(filepath.Join(b.L.AppDir, f))
	return string(src)
}

func firstDiff(a, b string) string {
	la, lb := strings.Split(a, "\n"), strings.Split(b, "\n")
	for i := 0; i < len(la) && i < len(lb); i++ {
		if la[i] != lb[i] {
			return fmt.Sprintf("line %d: %q vs %q", i+1, strings.TrimSpace(la[i]), strings.TrimSpace(lb[i]))
		}
	}
	return fmt.Sprintf("length %d vs %d lines", len(la), len(lb))
}

func cloneCase(cs *spec.Case) *spec.Case {
	b, _ := jsonMarshal(cs)
	var out spec.Case
	_ = jsonUnmarshal(b, &out)
	return &out
}

// editSpec applies a small edit that keeps the case valid.
func editSpec(cs *spec.Case, op C11Op) bool {
	var injs []*spec.Injector
	for fi := range cs.Files {
		for ii := range cs.Files[fi].Injectors {
			injs = append(injs, &cs.Files[fi].Injectors[ii])
		}
	}
	if len(injs) == 0 {
		return false
	}
	in := injs[op.Arg%len(injs)]
	switch op.Op {
	case "edit-rename":
		in.Name = in.Name + "X"
		return true
	case "edit-async":
		for i := range in.Elems {
			e := &in.Elems[(i+op.Arg)%len(in.Elems)]
			if e.Kind == "prov" {
				e.Async = !e.Async
				return true
			}
		}
	case "edit-order":
		if len(in.Elems) >= 2 {
			i := op.Arg % (len(in.Elems) - 1)
			in.Elems[i], in.Elems[i+1] = in.Elems[i+1], in.Elems[i]
			return true
		}
	}
	return false
}

func TestC11(t *testing.T)       { runProperty(t, "C11", genC11, checkC11) }
func TestReplayC11(t *testing.T) { runReplay(t, "C11", checkC11) }

// TestWitnessC11 also regenerates the repository's examples and compares them with the checked-in files.
func TestWitnessC11(t *testing.T) {
	runWitnesses(t, "C11", checkC11, func(c *Ctx) {
		exDir := filepath.Join(c.Snap.Src, "examples")
		ents, err := os.ReadDir(exDir)
		if err != nil {
			c.Rep.Fail("examples directory missing: "+err.Error(), "")
			return
		}
		var names []string
		for _, e := range ents {
			if e.IsDir() {
				names = append(names, e.Name())
			}
		}
		sort.Strings(names)
		n := 0
		for _, name := range names {
			dir := filepath.Join(exDir, name)
			band := filepath.Join(dir, "kessoku_band.go")
			want, err := os.ReadFile(band)
			if err != nil {
				continue
			}
			for _, procs := range []int{1, 4, 16} {
				// workspace mode is needed inside the repository module tree? the examples live in the main module.
				env := pipe.Env(fmt.Sprintf("GOMAXPROCS=%d", procs))
				r := pipe.Run(pipe.Cmd{Dir: dir, Env: env, Args: []string{c.Snap.CLI, "kessoku.go"}, Timeout: 3 * time.Minute})
				c.Rep.Eval(1)
				n++
				got, _ := os.ReadFile(band)
				if r.Exit != 0 || !bytes.Equal(got, want) {
					p := filepath.Join(c.Out, "fail-example-"+name+".json")
					msg := fmt.Sprintf("examples/%s: regenerating kessoku_band.go (GOMAXPROCS=%d) exit=%d, output differs from the checked-in file: %s\nstderr: %s", name, procs, r.Exit, firstDiff(string(want), string(got)), tail(r.Stderr, 800))
					_ = os.WriteFile(p, []byte(fmt.Sprintf(`{"property":"C11","example":%q,"msg":%q}`, name, msg)), 0o644)
					_ = os.WriteFile(band, want, 0o644)
					c.Rep.Fail(msg, p)
					return
				}
			}
			c.Rep.NonTrivial("example:" + name)
		}
		c.Rep.Extra["examples_regenerated_runs"] = float64(n)
	})
}
